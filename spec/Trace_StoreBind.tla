------------------------- MODULE Trace_StoreBind -------------------------
(***************************************************************************)
(* Leg C, hidden state: WHICH available item a granted retrieval token is  *)
(* bound to cannot be observed through the API until the token is used.    *)
(* TLC infers it: at every grant the trace specification chooses the item  *)
(* among those the retrieval discipline of the store ALLOWS (C06), a get   *)
(* must return the chosen item, a cancel releases it.  A recorded trace is *)
(* accepted iff some sequence of choices explains all of it; the longest   *)
(* explained prefix is kept in a TLC register per trace (needs -workers 1).*)
(*                                                                         *)
(* Allowed(t) at the grant of t.  U = items available now and not bound to *)
(* another granted token, R = those of U that were bound before and        *)
(* released by a cancellation, < = availability order:                     *)
(*   FIFO kinds   R if R # {} else {min U}                                 *)
(*   LIFO buffer  {max U}                                                  *)
(*   filter store as FIFO, restricted to the items filter(t) accepts       *)
(* An empty Allowed set at a grant means the retrieval is not backed by an *)
(* item of its own (C02); a get that returns an item no allowed choice     *)
(* explains breaks the discipline (C06).                                   *)
(***************************************************************************)
EXTENDS Trace_Store

VARIABLES bind,   \* granted get token gid -> item id
          rel     \* ids of items inside that were bound once and released

bvars == <<tid, l, L, e, bind, rel>>

Dom(f) == DOMAIN f
Ran(f) == {f[x] : x \in DOMAIN f}
Without(f, x) == [y \in (DOMAIN f) \ {x} |-> f[y]]

\* availability order of the item ids offered after event ev, ledger Lg
\* (timed kinds: WHICH items are available is observed (ready); their ORDER is the order in which the ledger saw them
\*  become available -- first time offered, then put order -- not the order of the implementation's list)
AvRec(Lg, id) == CHOOSE x \in Range(Lg.ins) : x.id = id
Before(Lg, a, b) == LET x == AvRec(Lg, a) y == AvRec(Lg, b) IN x.av < y.av \/ (x.av = y.av /\ a < b)
SortByAvail(Lg, S) == [k \in 1..Cardinality(S) |-> CHOOSE a \in S : Cardinality({b \in S : Before(Lg, b, a)}) = k - 1]
AvailSeq(Lg, ev) ==
  IF Cfg(tid).kind \in {"buffer", "fleet", "conveyor", "slotted"} THEN SortByAvail(Lg, Range(ev.ready) \cap {Lg.ins[i].id : i \in 1..Len(Lg.ins)})
  ELSE [i \in 1..Len(Lg.ins) |-> Lg.ins[i].id]
ItemRec(Lg, id) == CHOOSE x \in Range(Lg.ins) : x.id = id
PosIn(q, id) == CHOOSE i \in 1..Len(q) : q[i] = id

MatureAt(Lg, x) == CASE Cfg(tid).kind = "filter" -> Lg.now >= x.at + Cfg(tid).trig
                     [] OTHER -> TRUE
FltOkAt(Lg, f, x) == CASE f = 0 -> MatureAt(Lg, x) [] f = 1 -> TRUE [] f = 2 -> x.tag = 1 [] f = 3 -> x.tag = 0

Allowed(Lg, ev, b, rl, g) ==
  LET av == AvailSeq(Lg, ev)
      U  == {x \in Range(av) : x \notin Ran(b)}
      R  == U \cap rl
      M  == {x \in U : FltOkAt(Lg, Lg.toks[g].flt, ItemRec(Lg, x))}      \* filter store: what the filter accepts
  IN CASE Cfg(tid).kind = "filter" ->
            \* a FIFO store with filters: a released matching item, else the earliest available matching item
            IF M \cap rl # {} THEN M \cap rl ELSE {x \in M : \A y \in M : PosIn(av, x) <= PosIn(av, y)}
       [] Cfg(tid).kind = "buffer" /\ Cfg(tid).mode = "LIFO" -> {x \in U : \A y \in U : PosIn(av, y) <= PosIn(av, x)}
       [] OTHER -> IF R # {} THEN R ELSE {x \in U : \A y \in U : PosIn(av, x) <= PosIn(av, y)}

\* tokens granted by this event, in service order (priority, then issue order)
NewlyGranted(Lg, ev, b) ==
  {g \in 1..Len(Lg.toks) : Lg.toks[g].kind = "get" /\ Lg.toks[g].st = "live" /\ g \in Range(ev.trig) /\ g \notin Dom(b)}
TLess(Lg, a, c) == Lg.toks[a].prio < Lg.toks[c].prio \/ (Lg.toks[a].prio = Lg.toks[c].prio /\ a < c)

\* all binding functions that extend b over the newly granted tokens S
RECURSIVE Extend(_, _, _, _, _)
Extend(Lg, ev, b, rl, S) ==
  IF S = {} THEN {b}
  ELSE LET g == CHOOSE x \in S : \A y \in S : y = x \/ TLess(Lg, x, y)
       IN UNION { Extend(Lg, ev, (g :> x) @@ b, rl, S \ {g}) : x \in Allowed(Lg, ev, b, rl, g) }

BInit == /\ tid \in 1..Len(Traces)
         /\ l = 0 /\ L = Ledger0 /\ e = NoEvent
         /\ bind = <<>> /\ rel = {}

BNext ==
  /\ l < NEv(tid)
  /\ LET ev == Traces[tid].ev[l + 1]
         L2 == Step(L, ev)
         isGet == ev.k = "c" /\ ev.op = "get" /\ ev.res = "item"
         isCg  == ev.k = "c" /\ ev.op = "cg" /\ ev.res = "ok" /\ ev.tok \in Dom(bind)
         \* a get must return the item its token is bound to
         b1  == IF isGet \/ isCg THEN Without(bind, ev.tok) ELSE bind
         r1  == (IF isCg THEN rel \cup {bind[ev.tok]} ELSE rel) \cap {L2.ins[i].id : i \in 1..Len(L2.ins)}
     IN /\ isGet => (ev.tok \in Dom(bind) /\ bind[ev.tok] = ev.ri)
        /\ bind' \in Extend(L2, ev, b1, r1, NewlyGranted(L2, ev, b1))
        /\ rel' = r1
        /\ L' = L2 /\ e' = ev
  /\ l' = l + 1 /\ tid' = tid

\* high-water mark of the explained prefix, one TLC register per trace
Max(a, b) == IF a > b THEN a ELSE b
HighWater == TLCSet(tid, Max(TLCGet(tid), l))
ASSUME \A i \in 1..Len(Traces) : TLCSet(i, 0)

Accepted ==
  \A i \in 1..Len(Traces) :
     IF TLCGet(i) = Len(Traces[i].ev) THEN TRUE
     ELSE PrintT(<<"REJECTED", i, TLCGet(i)>>)
=============================================================================
