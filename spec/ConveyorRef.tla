--------------------------- MODULE ConveyorRef ---------------------------
(***************************************************************************)
(* Property-level reference conveyor with explicit item positions.         *)
(* Geometry on a grid: one item length of belt travel = Slot ticks, the    *)
(* belt is Cap item lengths long (L = Cap * Slot ticks of travel).         *)
(*   belt : items on the belt, head (nearest the exit) first               *)
(*          [id, pos, enter, offer, st, predTake]                          *)
(*          pos      travel since entry (0 .. L); pos = L: offered, waits   *)
(*          st       ticks the item spent stopped because the belt was     *)
(*                   stalled (non-accumulating) -- ghost                   *)
(*          predTake instant the item ahead left the belt (-1: none / not  *)
(*                   yet) -- ghost                                         *)
(* The environment enters items when admission allows, takes the waiting   *)
(* head whenever it likes (reserve and take in one instant), time passes.  *)
(*                                                                         *)
(* Stalled == the head waits at the exit (nobody has reserved it).         *)
(* Non-accumulating: while Stalled nothing is admitted and nothing moves.  *)
(* Accumulating: an item moves unless it is at the exit or would come      *)
(* closer than Slot to the item ahead; items are admitted up to Cap.       *)
(*                                                                         *)
(* TLC checks the positional invariants (C12/C13 as stated) AND the closed *)
(* forms that Trace_Conveyor.tla uses to judge recorded runs of the real   *)
(* conveyors, so the trace oracle is itself model-checked:                 *)
(*   non-accumulating  offer = enter + L + (stalled time in between)       *)
(*   accumulating      offer = max(enter + L, predTake + Slot)             *)
(***************************************************************************)
EXTENDS Integers, Sequences, FiniteSets, TLC

CONSTANTS Cap, Slot, Acc, MaxT

VARIABLES now, belt, nextId, lastEnter, done
vars == <<now, belt, nextId, lastEnter, done>>

L == Cap * Slot
Stalled == belt # <<>> /\ belt[1].pos = L
Max(a, b) == IF a > b THEN a ELSE b

Init == now = 0 /\ belt = <<>> /\ nextId = 1 /\ lastEnter = -Slot /\ done = <<>>

CanEnter ==
  /\ Len(belt) < Cap
  /\ (belt # <<>> => belt[Len(belt)].pos >= Slot)
  /\ (~Acc => ~Stalled)

Enter ==
  /\ CanEnter
  /\ belt' = Append(belt, [id |-> nextId, pos |-> 0, enter |-> now, offer |-> IF L = 0 THEN now ELSE -1, st |-> 0,
                           predTake |-> -1, predId |-> IF belt = <<>> THEN 0 ELSE belt[Len(belt)].id])
  /\ nextId' = nextId + 1 /\ lastEnter' = now
  /\ UNCHANGED <<now, done>>

Take ==
  /\ Stalled
  /\ done' = Append(done, [belt[1] EXCEPT !.pos = now])       \* pos reused as take time
  /\ belt' = [i \in 1..(Len(belt) - 1) |-> IF i = 1 THEN [belt[2] EXCEPT !.predTake = now] ELSE belt[i + 1]]
  /\ UNCHANGED <<now, nextId, lastEnter>>

\* new positions after one tick, head first (an item may follow the NEW position of the item ahead)
RECURSIVE Move(_, _)
Move(q, k) ==
  IF k > Len(q) THEN q
  ELSE LET x  == q[k]
           to == IF x.pos >= L THEN L
                 ELSE IF k = 1 THEN x.pos + 1
                 ELSE IF q[k-1].pos - (x.pos + 1) >= Slot THEN x.pos + 1 ELSE x.pos
           x2 == [x EXCEPT !.pos = to, !.offer = IF to = L /\ x.offer < 0 THEN now + 1 ELSE @]
       IN Move([q EXCEPT ![k] = x2], k + 1)

Tick ==
  /\ now < MaxT
  /\ now' = now + 1
  /\ belt' = IF ~Acc /\ Stalled
             THEN [i \in 1..Len(belt) |-> [belt[i] EXCEPT !.st = IF belt[i].offer < 0 THEN @ + 1 ELSE @]]  \* the belt is stopped
             ELSE Move(belt, 1)
  /\ UNCHANGED <<nextId, lastEnter, done>>

Next == Enter \/ Take \/ Tick
Spec == Init /\ [][Next]_vars

---------------------------------------------------------------------------
(* C12 *)
R_C12_Cap     == Len(belt) <= Cap
R_C12_Order   == \A i, j \in 1..Len(belt) : i < j => (belt[i].id < belt[j].id /\ belt[i].pos >= belt[j].pos)
R_C12_Spacing == [][(Len(belt') > Len(belt)) => (now - lastEnter >= Slot)]_vars
R_C12_MinTravel == \A i \in 1..Len(belt) : belt[i].offer >= 0 => belt[i].offer - belt[i].enter >= L
\* nobody is ever offered earlier in time than an item that entered before it
R_C12_OfferOrder == \A i, j \in 1..Len(belt) : (i < j /\ belt[j].offer >= 0) => (belt[i].offer >= 0 /\ belt[i].offer <= belt[j].offer)

(* C13 *)
R_C13_NoOverlap == \A i \in 2..Len(belt) : belt[i-1].pos - belt[i].pos >= Slot \/ belt[i].pos = 0
R_C13_NoAdmitWhenStalled == [][(~Acc /\ Stalled) => Len(belt') <= Len(belt)]_vars
R_C13_FrozenWhenStalled  == [][(~Acc /\ Stalled /\ now' > now) =>
                                  \A i \in 1..Len(belt) : belt'[i].pos = belt[i].pos]_vars
\* closed forms used by the trace specification
R_C13_FrozenClosedForm == ~Acc => \A i \in 1..Len(belt) :
     /\ belt[i].offer < 0 => belt[i].pos = (now - belt[i].enter) - belt[i].st
     /\ belt[i].offer >= 0 => belt[i].offer = belt[i].enter + L + belt[i].st
R_C13_CloseUpClosedForm == Acc => \A i \in 1..Len(belt) :
     belt[i].offer >= 0 => belt[i].offer = Max(belt[i].enter + L, belt[i].predTake + Slot)
\* accumulating: a stopped item touches the item ahead or is at the exit
R_C13_StoppedTouches == [][(Acc /\ now' > now) => \A i \in 1..Len(belt) :
     (belt'[i].pos = belt[i].pos) => (belt[i].pos = L \/ (i > 1 /\ belt'[i-1].pos - belt[i].pos = Slot))]_vars
R_C13_AdmitToCap == Acc => (CanEnter <=> (Len(belt) < Cap /\ (belt = <<>> \/ belt[Len(belt)].pos >= Slot)))
=============================================================================
