------------------------------ MODULE Store ------------------------------
(***************************************************************************)
(* One StoreCore store under an ARBITRARY environment: at every state any  *)
(* process may issue any call of the API, well-formed or not, and time may *)
(* pass.  TLC explores the complete graph for a bound on what is alive at  *)
(* one time (MaxLive tokens, Cap items); histories are unbounded because   *)
(* live tokens / items are renumbered canonically after every step.        *)
(*                                                                         *)
(* Leg A: the M_* definitions below are the listed properties C01, C02,    *)
(* C04-C07, C11, C14 at design level, as state invariants; properties of   *)
(* steps are written as invariants that quantify over every call enabled   *)
(* in the state (equivalent to [][...]_st, and it keeps `last` out of the  *)
(* fingerprint).                                                           *)
(* Leg B: ExportGraph prints, once per distinct state, the state and the   *)
(* complete successor table (call, predicted result, next state) as JSON;  *)
(* the harness walks that graph on the real classes.                       *)
(***************************************************************************)
EXTENDS StoreCore, Json

CONSTANTS Kind, Mode, Cap, FDelay, Transit, Trig,   \* store configuration
          Procs,      \* caller identities, 0 = "outside any process"
          Prios, Filters, Tags, Delays,
          MaxLive     \* bound on simultaneously live tokens

VARIABLES st, last

Cfg == [kind |-> Kind, mode |-> Mode, cap |-> Cap, fdelay |-> FDelay, transit |-> Transit, trig |-> Trig]

---------------------------------------------------------------------------
(* The call alphabet at a state.  Ill-formed calls are part of it: every   *)
(* live token of either kind and DEAD, by every process.                   *)
Call(op, p, n, prio, flt, tag, d) == [op |-> op, p |-> p, n |-> n, prio |-> prio, flt |-> flt, tag |-> tag, d |-> d]

PutRepr(s, p, n) == \* tags/delays vary only for calls that will be accepted
  IF \E i \in 1..Len(s.putRes) : s.putRes[i].n = n /\ s.putRes[i].owner = p
  THEN {Call("put", p, n, 0, 0, tg, d) : tg \in Tags, d \in (IF Kind = "buffer" THEN Delays ELSE {0})}
  ELSE {Call("put", p, n, 0, 0, 0, 0)}

Alphabet(s) ==
  LET toks == LiveNums(s) \cup {DEAD} IN
       (IF NLive(s) < MaxLive
        THEN {Call("rp", p, 0, pr, 0, 0, 0) : p \in Procs, pr \in (IF HasPrio(s) THEN Prios ELSE {0})}
             \cup {Call("rg", p, 0, pr, f, 0, 0) : p \in Procs, pr \in (IF HasPrio(s) THEN Prios ELSE {0}),
                                                  f \in (IF Kind = "filter" THEN Filters ELSE {1})}
        ELSE {})
  \cup UNION {PutRepr(s, p, n) : p \in Procs, n \in toks}
  \cup {Call("get", p, n, 0, 0, 0, 0) : p \in Procs, n \in toks}
  \cup {Call("cp", 0, n, 0, 0, 0, 0) : n \in toks}
  \cup {Call("cg", 0, n, 0, 0, 0, 0) : n \in toks}
  \cup (IF DueItems(s)  # {} THEN {Call("fireitem", 0, 0, 0, 0, 0, 0)} ELSE {})
  \cup (IF DueTimers(s) # {} THEN {Call("firetimer", 0, 0, 0, 0, 0, 0)} ELSE {})
  \cup {Call("firetrip", 0, k, 0, 0, 0, 0) : k \in DueTrips(s)}
  \cup (IF ActDue(s) THEN {Call("fireact", 0, 0, 0, 0, 0, 0)} ELSE {})
  \cup (IF ~AnyDue(s) /\ HasTimers(s) THEN {Call("tick", 0, 0, 0, 0, 0, 0)} ELSE {})

Do(s, c) ==
  CASE c.op = "rp"  -> DoReservePut(s, c.p, c.prio)
    [] c.op = "rg"  -> DoReserveGet(s, c.p, c.prio, c.flt)
    [] c.op = "put" -> DoPut(s, c.p, c.n, c.tag, c.d)
    [] c.op = "get" -> DoGet(s, c.p, c.n)
    [] c.op = "cp"  -> DoCancelPut(s, c.n)
    [] c.op = "cg"  -> DoCancelGet(s, c.n)
    [] c.op = "fireitem"  -> [s |-> FireItem(s),  r |-> <<"fired">>]
    [] c.op = "firetimer" -> [s |-> FireTimer(s), r |-> <<"fired">>]
    [] c.op = "firetrip"  -> [s |-> FireTrip(s, c.n), r |-> <<"fired">>]
    [] c.op = "fireact"   -> [s |-> FireAct(s),   r |-> <<"fired">>]
    [] c.op = "tick"      -> [s |-> DoTick(s),    r |-> <<"tick">>]

Init == st = EmptyStore(Cfg) /\ last = [c |-> Call("init", 0, 0, 0, 0, 0, 0), r |-> <<"init">>]

Next == \E c \in Alphabet(st) :
          LET d == Do(st, c) IN st' = Canon(d.s) /\ last' = [c |-> c, r |-> d.r]

Spec == Init /\ [][Next]_<<st, last>>

View == st

---------------------------------------------------------------------------
(* Observable facts of a state *)
Avail(s)   == IF Timed(s) THEN s.ready ELSE s.items          \* availability order
AvailIds(s) == {Avail(s)[i].id : i \in 1..Len(Avail(s))}
IsApi(c)   == c.op \in {"rp", "rg", "put", "get", "cp", "cg"}
Granted(q, n) == \E i \in 1..Len(q) : q[i].n = n
TokIn(q, n, p) == \E i \in 1..Len(q) : q[i].n = n /\ q[i].owner = p

\* item a granted retrieval token is bound to (0 if the binding is broken)
BoundId(s, n) ==
  LET ie == IndexOf(s.resEv, LAMBDA m : m = n) IN
  IF ie = 0 THEN 0
  ELSE IF Timed(s) THEN (IF ie <= Len(s.resIt) THEN s.resIt[ie] ELSE 0)
  ELSE (IF ie <= Len(s.items) THEN s.items[ie].id ELSE 0)

BoundSet(s) == {BoundId(s, s.getRes[i].n) : i \in 1..Len(s.getRes)}

WellFormed(s, c) ==
  CASE c.op = "put" -> c.n # DEAD /\ TokIn(s.putRes, c.n, c.p)
    [] c.op = "get" -> c.n # DEAD /\ TokIn(s.getRes, c.n, c.p)
    [] c.op = "cp"  -> c.n # DEAD /\ (Granted(s.putQ, c.n) \/ Granted(s.putRes, c.n))
    [] c.op = "cg"  -> c.n # DEAD /\ (Granted(s.getQ, c.n) \/ Granted(s.getRes, c.n))
    [] OTHER -> TRUE

IdTag(q) == {<<q[i].id, q[i].tag>> : i \in 1..Len(q)}
Inside(s) == IdTag(s.items) \cup IdTag(s.ready)

---------------------------------------------------------------------------
(* C01  capacity; granted space reservation honoured *)
M_C01_Cap == Len(st.putRes) + NInside(st) <= Cap
M_C01_PutHonoured ==
  \A c \in Alphabet(st) : (c.op = "put" /\ WellFormed(st, c)) =>
     LET d == Do(st, c) IN d.r = <<"ok">> /\ NInside(d.s) = NInside(st) + 1 /\ NInside(d.s) <= Cap

(* C02  conservation; each granted retrieval backed by its own item *)
M_C02_Backed   == Len(st.getRes) <= Len(Avail(st))
M_C02_Distinct == /\ Len(st.resEv) = Len(st.getRes)
                  /\ \A i \in 1..Len(st.getRes) : BoundId(st, st.getRes[i].n) \in AvailIds(st)
                  /\ Cardinality(BoundSet(st)) = Len(st.getRes)
M_C02_GetHonoured ==
  \A c \in Alphabet(st) : (c.op = "get" /\ WellFormed(st, c)) =>
     LET d == Do(st, c) IN
       /\ d.r[1] = "item"
       /\ <<d.r[2], d.r[3]>> \in Inside(st)
       /\ d.r[2] = BoundId(st, c.n)
       /\ Inside(d.s) = Inside(st) \ {<<d.r[2], d.r[3]>>}
M_C02_Conserve ==
  \A c \in Alphabet(st) : (c.op # "get") =>
     LET d == Do(st, c) IN
       IF c.op = "put" /\ WellFormed(st, c)
       THEN \E x \in Inside(d.s) : x \notin Inside(st) /\ x[2] = c.tag /\ Inside(d.s) = Inside(st) \cup {x}
       ELSE Inside(d.s) = Inside(st)

(* C04  no lost wake-up (end of instant = nothing due) *)
HeadGetServable(s) ==
  s.getQ # <<>> /\
  \E i \in 1..Len(Avail(s)) : Avail(s)[i].id \notin BoundSet(s)
        /\ (s.c.kind = "filter" => FltOk(Head(s.getQ).flt, Avail(s)[i]))
\* (PutRoom: free capacity and, on the slotted belt, the admission spacing.  One admission per slot: a waiting request
\*  on the slotted belt is servable only if nobody holds a granted, unused space reservation -- the implementation's own
\*  spacing test ignores granted reservations (known finding of C12), and its head-only trigger then leaves a second
\*  waiter pending behind a reservation granted in the same slot, which is what the property wants)
M_C04_Put == ~AnyDue(st) => ~(st.putQ # <<>> /\ PutRoom(st) /\ (Kind = "slotted" => st.putRes = <<>>))
M_C04_Get == ~AnyDue(st) => ~HeadGetServable(st)

(* C05  service order: the queues are ordered by (priority, arrival) and   *)
(* only the head is ever granted (TrigPut / TrigGet)                       *)
Ordered(q) == \A i, j \in 1..Len(q) : i < j =>
                 (q[i].prio < q[j].prio \/ (q[i].prio = q[j].prio /\ q[i].n < q[j].n))
M_C05_Queues == Ordered(st.putQ) /\ Ordered(st.getQ)
KeyLess(a, b) == a.prio < b.prio \/ (a.prio = b.prio /\ a.n < b.n)
HeadOnly(qPre, resPre, qPost, resPost) ==
  \A i \in 1..Len(resPost) : LET g == resPost[i] IN ~Granted(resPre, g.n) =>
     \A j \in 1..Len(qPost) : LET w == qPost[j] IN Granted(qPre, w.n) => ~KeyLess(w, g)
M_C05_HeadOnly ==
  \A c \in Alphabet(st) : LET d == Do(st, c) IN
     /\ HeadOnly(st.putQ, st.putRes, d.s.putQ, d.s.putRes)
     /\ HeadOnly(st.getQ, st.getRes, d.s.getQ, d.s.getRes)

(* C06  retrieval discipline at every grant.  U = available items not      *)
(* bound to a token granted earlier; R = those of U that had been reserved *)
(* before this step and released (ghost flag `was`).  FIFO: a released     *)
(* item if there is one, otherwise the earliest available; LIFO buffer:    *)
(* the latest available; filter store: an item satisfying the filter.      *)
(* Availability order: position in ready_items (buffer, fleet), put order  *)
(* (= item id) otherwise.                                                  *)
Pos(q, id) == IndexOf(q, LAMBDA it : it.id = id)
WasPre(id) == \E i \in 1..Len(Avail(st)) : Avail(st)[i].id = id /\ Avail(st)[i].was
M_C06_Grant ==
  \A c \in Alphabet(st) :
     LET s2 == Do(st, c).s
         newTok == {n \in TokNums(s2.getRes) : n \notin TokNums(st.getRes)}
     IN \A n \in newTok :
          LET ie    == IndexOf(s2.resEv, LAMBDA m : m = n)
              earlier == {BoundId(s2, s2.resEv[k]) : k \in 1..(ie-1)}
              U     == {x \in AvailIds(s2) : x \notin earlier}
              R     == {x \in U : WasPre(x)}
              b     == BoundId(s2, n)
              av    == Avail(s2)
              ord(x) == IF Timed(s2) THEN Pos(av, x) ELSE x
              tok   == CHOOSE t \in {s2.getRes[k] : k \in 1..Len(s2.getRes)} : t.n = n
          IN /\ b \in U
             /\ CASE Kind = "filter" ->
                       LET M == {x \in U : FltOk(tok.flt, av[Pos(av, x)])} IN
                       /\ b \in M
                       /\ IF M \cap R # {} THEN b \in R ELSE \A x \in M : ord(b) <= ord(x)
                  [] Kind = "buffer" /\ Mode = "LIFO" -> \A x \in U : ord(x) <= ord(b)
                  [] OTHER -> IF R # {} THEN b \in R ELSE \A x \in U : ord(b) <= ord(x)

(* cancelling a granted retrieval disturbs nobody else *)
M_C06_CancelLocal ==
  \A c \in Alphabet(st) : (c.op = "cg" /\ WellFormed(st, c)) =>
     LET d == Do(st, c) IN
       \A i \in 1..Len(st.getRes) : st.getRes[i].n # c.n =>
           BoundId(d.s, st.getRes[i].n) = BoundId(st, st.getRes[i].n)

(* C07  protocol: ill-formed calls raise RuntimeError and change nothing   *)
M_C07 ==
  \A c \in Alphabet(st) : IsApi(c) =>
     LET d == Do(st, c) IN
       IF WellFormed(st, c) THEN d.r # <<"RuntimeError">> /\ d.r # <<"ValueError">>
       ELSE d.r = <<"RuntimeError">> /\ d.s = st

(* C11  buffer delay, can_put / can_get exact, occupancy *)
ProbeGranted(q, n) == Granted(q, n)
M_C11_CanPut == Kind \in {"buffer", "fleet"} =>
  (CanPut(st) <=> LET d == DoReservePut(st, 0, 0) IN Granted(d.s.putRes, d.r[2]))
M_C11_CanGet == Kind \in {"buffer", "fleet"} =>
  (CanGet(st) <=> LET d == DoReserveGet(st, 0, 0, 1) IN Granted(d.s.getRes, d.r[2]))
M_C11_NotBefore == Kind = "buffer" => \A i \in 1..Len(st.ready) : st.ready[i].rem = 0
M_C11_FromThen  == (Kind = "buffer" /\ ~AnyDue(st)) => \A i \in 1..Len(st.items) : st.items[i].rem > 0
\* slotted belt (C12 at design level): offered exactly one travel time after entry; entries one slot apart
\* -- except for reservations granted together (known finding of C12: spacing ignores granted reservations)
M_C12_Travel == Kind = "slotted" => /\ \A i \in 1..Len(st.ready) : st.ready[i].rem = 0
                                    /\ \A i \in 1..Len(st.items) : st.items[i].rem <= Cap * Trig
                                    /\ \A i, j \in 1..Len(st.items) : i < j => st.items[i].rem <= st.items[j].rem

(* C14  fleet, design level (the timing clauses are checked on traces):    *)
(* every departed item belongs to a trip under way, and outside the        *)
(* departure instant a full fleet has nothing left waiting to depart.      *)
M_C14_Trips == Kind = "fleet" =>
   /\ \A i \in 1..Len(st.items) : st.items[i].trip <= Len(st.trips)
   /\ \A k \in 1..Len(st.trips) : \E i \in 1..Len(st.items) : st.items[i].trip = k
M_C14_CapTrigger == (Kind = "fleet" /\ ~AnyDue(st) /\ NInside(st) = Cap) =>
   \A i \in 1..Len(st.items) : st.items[i].trip # 0

---------------------------------------------------------------------------
(* Leg B export: the state graph, by TLC, as JSON lines *)
Compact(s) == [putQ |-> s.putQ, putRes |-> s.putRes, getQ |-> s.getQ, getRes |-> s.getRes,
               resEv |-> s.resEv, resIt |-> s.resIt, items |-> s.items, ready |-> s.ready,
               timers |-> s.timers, act |-> s.act, trips |-> s.trips]
SuccRow(s, c) == LET d == Do(s, c) n2 == Canon(d.s)
                 IN [c |-> c, r |-> d.r, wf |-> WellFormed(s, c), nxt |-> IF n2 = s THEN <<>> ELSE <<Compact(n2)>>]
ExportGraph ==
  PrintT(ToJson([st |-> Compact(st), succ |-> {SuccRow(st, c) : c \in Alphabet(st)}]))
=============================================================================
