------------------------- MODULE Trace_Determinism ------------------------
(***************************************************************************)
(* C19 is a hyperproperty: it relates TWO runs of the same model with the  *)
(* same parameters and the same random seed.  Self-composition: a trace    *)
(* here is a PAIR of recorded runs (ev, evb) of one configuration -- the   *)
(* second one made again in the same interpreter, or in a fresh            *)
(* interpreter process with another hash seed and another heap layout.     *)
(* Both logs are stepped in lock step; every recorded event (item          *)
(* movements, token issue and use, counter changes, end-of-instant         *)
(* snapshots, finalised statistics) must be identical, and the simulated   *)
(* time seen along each log never decreases.                               *)
(***************************************************************************)
EXTENDS Integers, Sequences, FiniteSets, TLC, Json, IOUtils

Traces == JsonDeserialize(IOEnv.TRACE_FILE)

VARIABLES tid, l
vars == <<tid, l>>

A == Traces[tid].ev
B == Traces[tid].evb
Min(a, b) == IF a < b THEN a ELSE b

Init == tid \in 1..Len(Traces) /\ l = 0
Next == l < Len(A) /\ l' = l + 1 /\ tid' = tid

T_C19_SameLength == Len(A) = Len(B)
T_C19_Same == (l > 0 /\ l <= Len(B)) => A[l] = B[l]
T_C19_SameOutcome == Traces[tid].outcome = Traces[tid].outcomeb
T_C19_TimeMonotone == [][(l > 0) => (A[l'].t >= A[l].t /\ (l' <= Len(B) => B[l'].t >= B[Min(l, Len(B))].t))]_vars
=============================================================================
