---------------------------- MODULE StoreCore ----------------------------
(***************************************************************************)
(* The reservable-store protocol of FactorySimPy as PURE OPERATORS on a    *)
(* store record, transcribed method by method from                         *)
(*   base/reservable_priority_req_store.py   (kind "prio")                 *)
(*   base/reservable_req_store.py            (kind "plain")                *)
(*   base/reservable_priority_req_filter_store.py (kind "filter")          *)
(*   base/buffer_store.py                    (kind "buffer", FIFO | LIFO)  *)
(*   base/fleet_store.py                     (kind "fleet")                *)
(*   base/slotted_belt_store.py behind edges/slotted_conveyor.py           *)
(*                                           (kind "slotted", c.trig = the *)
(*       slot delay in ticks, travel time = cap * slot).  As the code      *)
(*       stands: the conveyor's stall / accumulation state machine never   *)
(*       leaves IDLE (known finding of C13), so noaccumulation_mode_on is  *)
(*       always False and no move process is ever interrupted; what is     *)
(*       left is a delayed store with an admission spacing rule and one    *)
(*       delayed re-trigger of the put side per item.                      *)
(* Every operator Do<Call>(s, ...) returns [s |-> s', r |-> result].  The  *)
(* modules Store (one store under an arbitrary environment), Factory       *)
(* (stores as edges between node processes) and Trace_StoreModel (replay   *)
(* of recorded implementation runs) all call these operators.              *)
(*                                                                         *)
(* Shape of a store record s:                                              *)
(*   c      configuration [kind, mode, cap, fdelay, transit, trig]         *)
(*   putQ   reserve_put_queue   : Seq(Tok)   pending, service order        *)
(*   putRes reservations_put    : Seq(Tok)   granted, unused               *)
(*   getQ   reserve_get_queue   : Seq(Tok)                                 *)
(*   getRes reservations_get    : Seq(Tok)                                 *)
(*   resEv  reserved_events     : Seq(token number), grant order           *)
(*   resIt  reserved_items      : Seq(item id)  (buffer, fleet)            *)
(*   items  items               : Seq(Item)  held / in transit / loaded    *)
(*   ready  ready_items         : Seq(Item)  (buffer, fleet)               *)
(*   timers pending re-trigger timers of the filter store: Seq(rem)        *)
(*   act    fleet activation: [rem, armed]                                 *)
(*   trips  fleet trips under way: Seq(rem)  (item.trip indexes into it)   *)
(* Tok  == [n, owner, prio, flt];  Item == [id, tag, rem, trip, was]       *)
(*   was : ghost flag, TRUE once the item has been bound to a retrieval    *)
(*         token (used only by the C06 clauses: "released" items).         *)
(*   rem : ticks until the per-item timer fires (buffer delay / filter     *)
(*         store age); trip : 0 = waiting to depart, k = on trip k.        *)
(*                                                                         *)
(* Live tokens and items are renumbered canonically (Canon) after every    *)
(* step: rank among live tokens in arrival order, rank among items inside  *)
(* in put order.  This makes the reachable graph finite for histories of   *)
(* unbounded length; the only bounds are on what is alive at one time.     *)
(*                                                                         *)
(* Fixed = TRUE models the tree after the "fix:" commits (explicit,        *)
(* order-preserving binding in buffer/fleet, matched-item binding in the   *)
(* filter store, snapshot batches in the fleet).  Fixed = FALSE keeps the  *)
(* original arithmetic (positional pick, re-insert index                   *)
(* len(ready)-len(resEv)-1, mutate-while-iterating batch) so that TLC      *)
(* reproduces the defects P1..P4 of DESIGN.md section 1.3 at design level. *)
(***************************************************************************)
EXTENDS Integers, Sequences, FiniteSets, TLC

CONSTANT Fixed

DEAD == 0        \* stands for any used / cancelled / foreign token

---------------------------------------------------------------------------
(* Sequence helpers (Python list semantics where the code relies on it) *)

DropAt(q, i) == SubSeq(q, 1, i-1) \o SubSeq(q, i+1, Len(q))

\* Python list.insert(idx0, x) with 0-based idx0, negative indices wrap, clamped.
PyInsert(q, idx0, x) ==
  LET n  == Len(q)
      j0 == IF idx0 < 0 THEN (IF idx0 + n < 0 THEN 0 ELSE idx0 + n)
            ELSE (IF idx0 > n THEN n ELSE idx0)
  IN SubSeq(q, 1, j0) \o <<x>> \o SubSeq(q, j0+1, n)

IndexOf(q, P(_)) == IF \E i \in 1..Len(q) : P(q[i])
                    THEN CHOOSE i \in 1..Len(q) : P(q[i]) /\ \A j \in 1..(i-1) : ~P(q[j])
                    ELSE 0

SelectIdx(q, P(_)) == {i \in 1..Len(q) : P(q[i])}

\* list.append followed by a stable list.sort(key=priority)
InsertSorted(q, tok) ==
  LET k == Cardinality({i \in 1..Len(q) : q[i].prio <= tok.prio})
  IN SubSeq(q, 1, k) \o <<tok>> \o SubSeq(q, k+1, Len(q))

HasPrio(s) == s.c.kind \in {"prio", "filter", "fleet", "slotted"}
Timed(s)   == s.c.kind \in {"buffer", "fleet", "slotted"}
Slotted(s) == s.c.kind = "slotted"
Travel(s)  == s.c.cap * s.c.trig

TokNums(q) == {q[i].n : i \in 1..Len(q)}
LiveNums(s) == TokNums(s.putQ) \cup TokNums(s.putRes) \cup TokNums(s.getQ) \cup TokNums(s.getRes)
NLive(s) == Cardinality(LiveNums(s))
ItemIds(s) == {s.items[i].id : i \in 1..Len(s.items)} \cup {s.ready[i].id : i \in 1..Len(s.ready)}
NInside(s) == Len(s.items) + Len(s.ready)

EmptyStore(cfg) ==
  [c |-> cfg, putQ |-> <<>>, putRes |-> <<>>, getQ |-> <<>>, getRes |-> <<>>,
   resEv |-> <<>>, resIt |-> <<>>, items |-> <<>>, ready |-> <<>>,
   timers |-> <<>>, act |-> [rem |-> cfg.fdelay, armed |-> FALSE], trips |-> <<>>]

---------------------------------------------------------------------------
(* Filters of the filter store.  0 = the default age filter                *)
(* (now >= put_time + trigger_delay), 1 = accept anything, 2 = tag = 1,    *)
(* 3 = tag = 0.                                                            *)
FltOk(f, it) == CASE f = 0 -> it.rem = 0
                  [] f = 1 -> TRUE
                  [] f = 2 -> it.tag = 1
                  [] f = 3 -> it.tag = 0

---------------------------------------------------------------------------
(* _do_reserve_put / _trigger_reserve_put: the head of the queue only,     *)
(* once (the helper returns None, so the loop breaks after one element).   *)
\* slotted belt store: while something is in transit, the item that entered last must have entered at least one
\* slot delay ago (now >= items[-1].conveyor_entry_time + delay); with nothing in transit only the capacity counts
Spaced(s)  == s.items = <<>> \/ s.items[Len(s.items)].rem <= Travel(s) - s.c.trig
PutRoom(s) == Len(s.putRes) + NInside(s) < s.c.cap /\ (Slotted(s) => Spaced(s))

TrigPut(s) ==
  IF s.putQ # <<>> /\ PutRoom(s)
  THEN [s EXCEPT !.putRes = Append(@, Head(s.putQ)), !.putQ = Tail(@)]
  ELSE s

(* _do_reserve_get / _trigger_reserve_get *)
Reserved(s, it)  == \E i \in 1..Len(s.resIt) : s.resIt[i] = it.id

TrigGet1(s) ==
  IF s.getQ = <<>> THEN s ELSE
  LET t == Head(s.getQ) IN
  CASE s.c.kind \in {"prio", "plain"} ->
         IF Len(s.getRes) < Len(s.items)
         THEN [s EXCEPT !.getRes = Append(@, t), !.getQ = Tail(@), !.resEv = Append(@, t.n),
                        !.items[Len(s.resEv) + 1].was = TRUE]
         ELSE s
    [] s.c.kind = "filter" ->
         IF Len(s.getRes) < Len(s.items)
         THEN LET R == Len(s.resEv)
                  k == IndexOf(SubSeq(s.items, R+1, Len(s.items)), LAMBDA it : FltOk(t.flt, it))
              IN IF k = 0 THEN s
                 ELSE LET moved == IF Fixed
                                   THEN SubSeq(s.items, 1, R) \o <<s.items[R+k]>>
                                        \o DropAt(SubSeq(s.items, R+1, Len(s.items)), k)
                                   ELSE s.items      \* original: binds positionally, items[R]
                      IN [s EXCEPT !.getRes = Append(@, t), !.getQ = Tail(@),
                                   !.resEv = Append(@, t.n),
                                   !.items = [moved EXCEPT ![R + 1].was = TRUE]]
         ELSE s
    [] s.c.kind \in {"buffer", "fleet", "slotted"} ->
         IF Len(s.getRes) < Len(s.ready)
         THEN LET j   == Len(s.resEv)
                  un  == SelectIdx(s.ready, LAMBDA it : ~Reserved(s, it))
                  pick == IF Fixed
                          THEN (IF s.c.mode = "LIFO"
                                THEN CHOOSE i \in un : \A k \in un : k <= i
                                ELSE CHOOSE i \in un : \A k \in un : i <= k)
                          ELSE (IF s.c.mode = "LIFO" THEN Len(s.ready) - j ELSE j + 1)
              IN [s EXCEPT !.getRes = Append(@, t), !.getQ = Tail(@),
                           !.resEv = Append(@, t.n), !.resIt = Append(@, s.ready[pick].id),
                           !.ready[pick].was = TRUE]
         ELSE s

(* _trigger_reserve_get.  Everywhere the helper returns None and the loop   *)
(* stops after the head; the repaired filter store reports a grant, so the *)
(* loop goes on with the new head until one request cannot be served.      *)
RECURSIVE TrigGetAll(_)
TrigGetAll(s) == LET s1 == TrigGet1(s) IN IF s1 = s THEN s ELSE TrigGetAll(s1)

TrigGet(s) == IF Fixed /\ s.c.kind = "filter" THEN TrigGetAll(s) ELSE TrigGet1(s)

---------------------------------------------------------------------------
(* reserve_put(priority) / reserve_get(priority, filter)                   *)
NewTok(s, p, prio, flt) == [n |-> NLive(s) + 1, owner |-> p,
                            prio |-> IF HasPrio(s) THEN prio ELSE 0, flt |-> flt]

\* with an explicit token number n (callers that keep their own numbering, e.g. Factory)
DoReservePutN(s, p, prio, n) ==
  LET t  == [NewTok(s, p, prio, 1) EXCEPT !.n = n]
      s1 == [s EXCEPT !.putQ = InsertSorted(@, t)]
      s2 == TrigPut(s1)
  IN [s |-> s2, r |-> <<"tok", t.n>>]

DoReserveGetN(s, p, prio, flt, n) ==
  LET t  == [NewTok(s, p, prio, IF s.c.kind = "filter" THEN flt ELSE 1) EXCEPT !.n = n]
      s1 == [s EXCEPT !.getQ = InsertSorted(@, t)]
      s2 == TrigGet(s1)
  IN [s |-> s2, r |-> <<"tok", t.n>>]

DoReservePut(s, p, prio)      == DoReservePutN(s, p, prio, NLive(s) + 1)
DoReserveGet(s, p, prio, flt) == DoReserveGetN(s, p, prio, flt, NLive(s) + 1)

(* reserve_put_cancel(event): any caller; pending or granted; else RuntimeError *)
DoCancelPut(s, n) ==
  LET iq == IndexOf(s.putQ,   LAMBDA t : t.n = n)
      ir == IndexOf(s.putRes, LAMBDA t : t.n = n)
  IN IF n # DEAD /\ iq > 0 THEN [s |-> TrigPut([s EXCEPT !.putQ = DropAt(@, iq)]), r |-> <<"ok">>]
     ELSE IF n # DEAD /\ ir > 0 THEN [s |-> TrigPut([s EXCEPT !.putRes = DropAt(@, ir)]), r |-> <<"ok">>]
     ELSE [s |-> s, r |-> <<"RuntimeError">>]

(* reserve_get_cancel(event) *)
DoCancelGet(s, n) ==
  LET iq == IndexOf(s.getQ,   LAMBDA t : t.n = n)
      ir == IndexOf(s.getRes, LAMBDA t : t.n = n)
  IN IF n # DEAD /\ iq > 0 THEN [s |-> TrigGet([s EXCEPT !.getQ = DropAt(@, iq)]), r |-> <<"ok">>]
     ELSE IF n # DEAD /\ ir > 0 THEN
       LET ie == IndexOf(s.resEv, LAMBDA m : m = n) IN
       IF ~Timed(s)
       THEN \* items.pop(ie); items.insert(len(reserved_events)-1, item); reserved_events.pop(ie)
            LET it == s.items[ie]
                s1 == [s EXCEPT !.getRes = DropAt(@, ir),
                                !.items = PyInsert(DropAt(s.items, ie), Len(s.resEv) - 1, it),
                                !.resEv = DropAt(@, ie)]
            IN [s |-> TrigGet(s1), r |-> <<"ok">>]
       ELSE LET id  == s.resIt[ie]
                ix  == IndexOf(s.ready, LAMBDA it : it.id = id)
                it  == s.ready[ix]
                rd0 == DropAt(s.ready, ix)
                rd1 == IF Fixed THEN s.ready     \* repaired: the item stays where it is
                       ELSE IF s.c.mode = "LIFO" THEN Append(rd0, it)
                       ELSE PyInsert(rd0, Len(rd0) - (Len(s.resEv) - 1) - 1, it)
                s1  == [s EXCEPT !.getRes = DropAt(@, ir), !.resEv = DropAt(@, ie),
                                 !.resIt = DropAt(@, ie), !.ready = rd1]
            IN [s |-> TrigGet(s1), r |-> <<"ok">>]
     ELSE [s |-> s, r |-> <<"RuntimeError">>]

(* put(event, item): needs a granted token of the calling process *)
DoPutId(s, p, n, tag, delay, id) ==
  LET ir == IndexOf(s.putRes, LAMBDA t : t.n = n /\ t.owner = p) IN
  IF n = DEAD \/ ir = 0 THEN [s |-> s, r |-> <<"RuntimeError">>] ELSE
  LET dummy == 0
      it == [id |-> id, tag |-> tag,
             rem |-> CASE s.c.kind = "buffer" -> delay
                       [] s.c.kind = "slotted" -> Travel(s)
                       [] s.c.kind = "filter" -> s.c.trig
                       [] OTHER -> 0,
             trip |-> 0, was |-> FALSE]
      s1 == [s EXCEPT !.putRes = DropAt(@, ir), !.items = Append(@, it)]
      \* one delayed re-trigger per put; timers that fire in the same instant are
      \* indistinguishable (each is one _trigger_reserve_get), so equal ones are merged
      s2 == CASE s.c.kind = "filter" ->
                   IF \E i \in 1..Len(s1.timers) : s1.timers[i] = s.c.trig THEN s1
                   ELSE [s1 EXCEPT !.timers = Append(@, s.c.trig)]
              [] s.c.kind = "fleet"  ->
                   IF NInside(s1) = s.c.cap THEN [s1 EXCEPT !.act.armed = TRUE] ELSE s1
              \* move_to_ready_items phase 1: after one slot delay an event whose callback is _trigger_reserve_put
              [] s.c.kind = "slotted" -> [s1 EXCEPT !.timers = Append(@, s.c.trig)]
              [] OTHER -> s1
  IN [s |-> IF s.c.kind = "fleet" THEN TrigGet(TrigGet(s2)) ELSE TrigGet(s2), r |-> <<"ok">>]

DoPut(s, p, n, tag, delay) == DoPutId(s, p, n, tag, delay, Cardinality(ItemIds(s)) + 1)

(* get(event) *)
DoGet(s, p, n) ==
  LET ir == IndexOf(s.getRes, LAMBDA t : t.n = n /\ t.owner = p) IN
  IF n = DEAD \/ ir = 0 THEN [s |-> s, r |-> <<"RuntimeError">>] ELSE
  LET ie == IndexOf(s.resEv, LAMBDA m : m = n) IN
  IF ~Timed(s)
  THEN LET it == s.items[ie]
           s1 == [s EXCEPT !.getRes = DropAt(@, ir), !.items = DropAt(@, ie), !.resEv = DropAt(@, ie)]
       IN [s |-> TrigPut(s1), r |-> <<"item", it.id, it.tag>>]
  ELSE LET id == s.resIt[ie]
           ix == IndexOf(s.ready, LAMBDA it : it.id = id)
       IN IF ix = 0 THEN   \* original code only (P2): ValueError, AFTER the reservation was dropped
            [s |-> [s EXCEPT !.getRes = DropAt(@, ir), !.resEv = DropAt(@, ie), !.resIt = DropAt(@, ie)],
             r |-> <<"ValueError">>]
          ELSE LET it == s.ready[ix]
                   s1 == [s EXCEPT !.getRes = DropAt(@, ir), !.resEv = DropAt(@, ie),
                                   !.resIt = DropAt(@, ie), !.ready = DropAt(@, ix)]
               IN [s |-> TrigPut(s1), r |-> <<"item", it.id, it.tag>>]

(* Edge.can_put / can_get (Buffer, Fleet) and occupancy *)
CanPut(s) == IF NInside(s) = s.c.cap THEN FALSE ELSE (s.c.cap - NInside(s)) > Len(s.putRes)
CanGet(s) == IF s.ready = <<>> THEN FALSE ELSE Len(s.ready) > Len(s.getRes)

---------------------------------------------------------------------------
(* Time.  Timers are remaining ticks.  A timer with rem = 0 is DUE: it     *)
(* fires in the current instant (FireX), and the clock advances (DoTick)   *)
(* only when nothing is due.                                               *)

DueItems(s)  == IF s.c.kind \in {"buffer", "slotted"} THEN SelectIdx(s.items, LAMBDA it : it.rem = 0) ELSE {}
DueTimers(s) == IF s.c.kind \in {"filter", "slotted"} THEN SelectIdx(s.timers, LAMBDA r : r = 0) ELSE {}
DueTrips(s)  == IF s.c.kind = "fleet"  THEN SelectIdx(s.trips,  LAMBDA r : r = 0) ELSE {}
ActDue(s)    == s.c.kind = "fleet" /\ (s.act.rem = 0 \/ s.act.armed)
AnyDue(s)    == DueItems(s) # {} \/ DueTimers(s) # {} \/ DueTrips(s) # {} \/ ActDue(s)
HasTimers(s) == \/ s.c.kind = "buffer" /\ s.items # <<>>
                \/ s.c.kind = "slotted" /\ (s.items # <<>> \/ s.timers # <<>>)
                \/ s.c.kind = "filter" /\ (s.timers # <<>> \/ \E i \in 1..Len(s.items) : s.items[i].rem > 0)
                \/ s.c.kind = "fleet"

Dec(r) == IF r > 0 THEN r - 1 ELSE 0

DoTick(s) ==
  [s EXCEPT !.items  = [i \in 1..Len(@) |-> [@[i] EXCEPT !.rem = Dec(@)]],
            !.timers = [i \in 1..Len(@) |-> Dec(@[i])],
            !.trips  = [i \in 1..Len(@) |-> Dec(@[i])],
            !.act.rem = IF s.c.kind = "fleet" THEN Dec(@) ELSE @]

(* BufferStore.move_to_ready_items(item) after its timeout: the per-item   *)
(* timers of one instant fire in the order the items were put.             *)
FireItem(s) ==
  LET i  == CHOOSE i \in DueItems(s) : \A k \in DueItems(s) : i <= k
      it == s.items[i]
      s1 == [s EXCEPT !.items = DropAt(@, i), !.ready = Append(@, it)]
  IN TrigPut(TrigGet(s1))

(* filter store: _add_trigger_event -> _trigger_reserve_get *)
FireTimer(s) ==
  LET i == CHOOSE i \in DueTimers(s) : TRUE
  IN IF Slotted(s) THEN TrigPut([s EXCEPT !.timers = DropAt(@, i)])      \* end of an item's entry phase
     ELSE TrigGet([s EXCEPT !.timers = DropAt(@, i)])

(* FleetStore.fleet_activation_process, one wake-up.                       *)
(* Repaired code: everything still waiting departs as one batch (snapshot),*)
(* the timer restarts and the capacity event is always re-armed.           *)
(* Original code: a trip is started whenever items is non-empty and is     *)
(* handed the live list itself; the capacity event is re-created only      *)
(* inside that branch.                                                     *)
Waiting(s) == SelectIdx(s.items, LAMBDA it : it.trip = 0)

FireAct(s) ==
  IF Fixed THEN
    LET k  == Len(s.trips) + 1
        s1 == IF Waiting(s) # {}
              THEN [s EXCEPT !.items = [i \in 1..Len(@) |-> IF @[i].trip = 0 THEN [@[i] EXCEPT !.trip = k] ELSE @[i]],
                             !.trips = Append(@, 2 * s.c.transit)]
              ELSE s
    IN [s1 EXCEPT !.act = [rem |-> s.c.fdelay, armed |-> FALSE]]
  ELSE
    IF s.items # <<>>
    THEN [s EXCEPT !.trips = Append(@, 2 * s.c.transit), !.act = [rem |-> s.c.fdelay, armed |-> FALSE]]
    ELSE [s EXCEPT !.act.rem = s.c.fdelay]

(* FleetStore.move_to_ready_items(batch) at the end of the round trip:     *)
(* item by item  items -> ready_items, trigger get side, trigger put side. *)
MoveOne(s, i) == TrigPut(TrigGet([s EXCEPT !.items = DropAt(@, i),
                                          !.ready = Append(@, [s.items[i] EXCEPT !.trip = 0])]))

RECURSIVE MoveBatch(_, _)
MoveBatch(s, k) ==
  LET i == IndexOf(s.items, LAMBDA it : it.trip = k) IN
  IF i = 0 THEN s ELSE MoveBatch(MoveOne(s, i), k)

\* original: `for item in items: self.items.pop(self.items.index(item))` over the
\* live list itself -- the iterator skips every other element (defect P4)
RECURSIVE MoveAlt(_, _)
MoveAlt(s, pos) == IF pos > Len(s.items) THEN s ELSE MoveAlt(MoveOne(s, pos), pos + 1)

FireTrip(s, k) ==
  IF Fixed THEN
    LET s1 == MoveBatch(s, k)
    IN [s1 EXCEPT !.trips = DropAt(@, k),
                  !.items = [i \in 1..Len(@) |-> IF @[i].trip > k THEN [@[i] EXCEPT !.trip = @ - 1] ELSE @[i]]]
  ELSE [MoveAlt(s, 1) EXCEPT !.trips = DropAt(@, k)]

---------------------------------------------------------------------------
(* Canonical renumbering of live tokens and of the items inside.           *)
Rank(x, S) == Cardinality({y \in S : y <= x})

Canon(s) ==
  LET L  == LiveNums(s)
      I  == ItemIds(s)
      rt(q) == [i \in 1..Len(q) |-> [q[i] EXCEPT !.n = Rank(@, L)]]
      ri(q) == [i \in 1..Len(q) |-> [q[i] EXCEPT !.id = Rank(@, I)]]
  IN [s EXCEPT !.putQ = rt(@), !.putRes = rt(@), !.getQ = rt(@), !.getRes = rt(@),
               !.resEv = [i \in 1..Len(@) |-> Rank(@[i], L)],
               !.resIt = [i \in 1..Len(@) |-> Rank(@[i], I)],
               !.items = ri(@), !.ready = ri(@)]
=============================================================================
