----------------------------- MODULE Factory -----------------------------
(***************************************************************************)
(* Whole factories at design level: sources, machines, splitters, combiners *)
(* and sinks as process state machines (ONE ACTION PER SEGMENT BETWEEN TWO `yield`s of the      *)
(* generator in nodes/source.py, nodes/machine.py, nodes/sink.py) composed *)
(* with StoreCore stores as edges (Buffer, Fleet).                         *)
(*                                                                         *)
(* Time is integer ticks with maximal progress: Tick is enabled only when  *)
(* no instantaneous action is (Urgent).  WITHIN an instant every enabled   *)
(* action may fire in ANY order: a superset of the orders the SimPy kernel *)
(* can produce for any construction order, delay values and hop counts     *)
(* (DESIGN 3.1).  Configurations are nondeterministic initial states, so   *)
(* one TLC run enumerates a configuration family.                          *)
(*                                                                         *)
(* A configuration is a record                                             *)
(*   nodes : Seq([type, blocking, wc, setup, iat, pd, pin, pout, ins, outs])*)
(*   edges : Seq([kind, mode, cap, delay, fdelay, transit])                *)
(* with iat / pd finite scripts (ticks), pin / pout = -1 (FIRST_AVAILABLE),*)
(* -2 (ROUND_ROBIN) or a constant index >= 0, ins / outs the ordered edge  *)
(* lists of the node, drains = by construction nothing blocks forever.     *)
(***************************************************************************)
EXTENDS StoreCore

CONSTANTS Configs,      \* sequence of configurations
          MaxT,         \* horizon (ticks)
          MaxSteps      \* bound on actions per instant (C20)

VARIABLES cid,          \* which configuration
          now, steps,   \* time, actions fired in the current instant
          E,            \* edge j -> StoreCore store
          tc,           \* edge j -> next token number
          S,            \* node i -> process state of a source / sink / machine behaviour
          W,            \* node i -> sequence of machine workers
          place,        \* item -> <<kind, index>>   (ground truth, ghost)
          ctr           \* node i -> [gen, disc, proc, recv]  (the stats counters)

vars == <<cid, now, steps, E, tc, S, W, place, ctr>>

C        == Configs[cid]
N(i)     == C.nodes[i]
NN       == Len(C.nodes)
NE       == Len(C.edges)
Nodes    == 1..NN
Edges    == 1..NE
Pid(i, k) == i * 10 + k                     \* k = 0 behaviour, k >= 1 worker slot / sub-process

EdgeCfg(j) == LET e == C.edges[j] IN
  [kind |-> e.kind, mode |-> e.mode, cap |-> e.cap, fdelay |-> e.fdelay, transit |-> e.transit, trig |-> e.trig]

---------------------------------------------------------------------------
(* protocol calls on edge records; the results are folded into E and tc *)
Trig(s, n)   == \E k \in 1..Len(s.putRes) : s.putRes[k].n = n
TrigG(s, n)  == \E k \in 1..Len(s.getRes) : s.getRes[k].n = n
Triggered(s, n) == Trig(s, n) \/ TrigG(s, n)

\* reserve on a list of edges in order; returns [E, tc, toks] with toks = <<<<edge, n>>, ...>>
RECURSIVE ReserveAll(_, _, _, _, _, _)
ReserveAll(EE, TT, js, p, put, acc) ==
  IF js = <<>> THEN [E |-> EE, tc |-> TT, toks |-> acc]
  ELSE LET j == Head(js)
           d == IF put THEN DoReservePutN(EE[j], p, 0, TT[j]) ELSE DoReserveGetN(EE[j], p, 0, 1, TT[j])
       IN ReserveAll([EE EXCEPT ![j] = d.s], [TT EXCEPT ![j] = @ + 1], Tail(js), p, put, Append(acc, <<j, TT[j]>>))

RECURSIVE CancelAll(_, _, _)
CancelAll(EE, toks, put) ==
  IF toks = <<>> THEN EE
  ELSE LET j == Head(toks)[1] n == Head(toks)[2]
           d == IF put THEN DoCancelPut(EE[j], n) ELSE DoCancelGet(EE[j], n)
       IN CancelAll([EE EXCEPT ![j] = d.s], Tail(toks), put)

FirstTrig(toks) == CHOOSE k \in 1..Len(toks) : Triggered(E[toks[k][1]], toks[k][2])
                      /\ \A m \in 1..(k-1) : ~Triggered(E[toks[m][1]], toks[m][2])
AnyTrig(toks) == \E k \in 1..Len(toks) : Triggered(E[toks[k][1]], toks[k][2])
Others(toks, k) == SubSeq(toks, 1, k-1) \o SubSeq(toks, k+1, Len(toks))

EdgeDelay(j) == C.edges[j].delay
FA == -1      \* policy FIRST_AVAILABLE
RRP == -2     \* policy ROUND_ROBIN; a policy >= 0 is a constant edge index
SCR == -3     \* a user-supplied callable / generator: the node's script pinS / poutS, consumed cyclically, one value per selection
RND == -4     \* policy RANDOM: any edge of the list, chosen afresh for every item (the generator behind it is not modelled:
              \* every sequence of choices is a behaviour, so whatever the seeded generator picks is covered)
SelS(pol, cnt, n, scr) == IF pol = RRP THEN (cnt % n) + 1
                          ELSE IF pol = SCR THEN scr[(cnt % Len(scr)) + 1] + 1
                          ELSE pol + 1     \* 1-based position in the edge list

\* the set of positions a selection may yield (a singleton except for RANDOM)
SelSet(pol, cnt, n, scr) == IF pol = RND THEN 1..n ELSE {SelS(pol, cnt, n, scr)}

PosOfEdge(i, j) == CHOOSE k \in 1..Len(N(i).ins) : N(i).ins[k] = j
Idle == [pc |-> "idle", rem |-> 0, item |-> 0, toks |-> <<>>, k |-> 0, rr |-> 0, rro |-> 0, slots |-> 0]

---------------------------------------------------------------------------
Init ==
  /\ cid \in 1..Len(Configs)
  /\ now = 0 /\ steps = 0
  /\ E = [j \in 1..Len(Configs[cid].edges) |->
            LET e == Configs[cid].edges[j] IN
            \* (trig: slot delay of a slotted conveyor edge, 0 otherwise)
            EmptyStore([kind |-> e.kind, mode |-> e.mode, cap |-> e.cap, fdelay |-> e.fdelay, transit |-> e.transit, trig |-> e.trig])]
  /\ tc = [j \in 1..Len(Configs[cid].edges) |-> 1]
  /\ S = [i \in 1..Len(Configs[cid].nodes) |->
            LET n == Configs[cid].nodes[i] IN
            CASE n.type = "sink" -> [Idle EXCEPT !.pc = "start"]
              [] OTHER -> [Idle EXCEPT !.pc = "setup", !.rem = n.setup]]
  /\ W = [i \in 1..Len(Configs[cid].nodes) |-> <<>>]
  /\ place = <<>>
  /\ ctr = [i \in 1..Len(Configs[cid].nodes) |-> [gen |-> 0, disc |-> 0, proc |-> 0, recv |-> 0, org |-> <<>>, tsum |-> 0]]

Step == steps' = steps + 1 /\ now' = now /\ cid' = cid

---------------------------------------------------------------------------
(* Source.behaviour *)
NextIat(i, k) == IF k < Len(N(i).iat) THEN [pc |-> "gen", rem |-> N(i).iat[k + 1]] ELSE [pc |-> "done", rem |-> 0]

SrcSetup(i) ==
  /\ N(i).type = "source" /\ S[i].pc = "setup" /\ S[i].rem = 0
  /\ S' = [S EXCEPT ![i] = [@ EXCEPT !.pc = NextIat(i, 0).pc, !.rem = NextIat(i, 0).rem]]
  /\ UNCHANGED <<E, tc, W, place, ctr>> /\ Step

\* the inter-arrival timer expired: create the item, then act according to policy / blocking mode
SrcCreate(i) ==
  /\ N(i).type = "source" /\ S[i].pc = "gen" /\ S[i].rem = 0
  /\ LET x    == Len(place) + 1
         outs == N(i).outs
         k1   == S[i].k + 1
         nxt  == NextIat(i, k1)
         pl1  == Append(place, <<"src", i>>)
         c1   == [ctr EXCEPT ![i].gen = @ + 1]
     IN IF N(i).pout = FA THEN
          IF N(i).blocking THEN
            LET r == ReserveAll(E, tc, outs, Pid(i, 0), TRUE, <<>>) IN
            /\ E' = r.E /\ tc' = r.tc /\ place' = pl1 /\ ctr' = c1
            /\ S' = [S EXCEPT ![i] = [@ EXCEPT !.pc = "wait", !.item = x, !.toks = r.toks, !.k = k1]]
          ELSE
            IF \E m \in 1..Len(outs) : CanPut(E[outs[m]]) THEN
              LET m == CHOOSE m \in 1..Len(outs) : CanPut(E[outs[m]]) /\ \A q \in 1..(m-1) : ~CanPut(E[outs[q]])
                  r == ReserveAll(E, tc, <<outs[m]>>, Pid(i, 1), TRUE, <<>>) IN
              /\ E' = r.E /\ tc' = r.tc /\ place' = pl1 /\ ctr' = c1
              /\ S' = [S EXCEPT ![i] = [@ EXCEPT !.pc = "sub", !.item = x, !.toks = r.toks, !.k = k1]]
            ELSE
              /\ place' = Append(place, <<"disc", i>>) /\ ctr' = [c1 EXCEPT ![i].disc = @ + 1]
              /\ S' = [S EXCEPT ![i] = [@ EXCEPT !.pc = nxt.pc, !.rem = nxt.rem, !.k = k1]]
              /\ UNCHANGED <<E, tc>>
        ELSE
          \E m \in SelSet(N(i).pout, S[i].rro, Len(outs), N(i).poutS) : LET j == outs[m] IN
          IF N(i).blocking \/ CanPut(E[j]) THEN
            LET r == ReserveAll(E, tc, <<j>>, Pid(i, 1), TRUE, <<>>) IN
            /\ E' = r.E /\ tc' = r.tc /\ place' = pl1 /\ ctr' = c1
            /\ S' = [S EXCEPT ![i] = [@ EXCEPT !.pc = "sub", !.item = x, !.toks = r.toks, !.k = k1, !.rro = @ + 1]]
          ELSE
            /\ place' = Append(place, <<"disc", i>>) /\ ctr' = [c1 EXCEPT ![i].disc = @ + 1]
            /\ S' = [S EXCEPT ![i] = [@ EXCEPT !.pc = nxt.pc, !.rem = nxt.rem, !.k = k1, !.rro = @ + 1]]
            /\ UNCHANGED <<E, tc>>
  /\ UNCHANGED W /\ Step

\* resume after any_of(tokens) / after the push sub-process got its token: commit to the lowest
\* triggered edge, withdraw the other requests, put, draw the next inter-arrival time
SrcPut(i) ==
  /\ N(i).type = "source" /\ S[i].pc \in {"wait", "sub"} /\ AnyTrig(S[i].toks)
  /\ LET toks == S[i].toks
         k    == FirstTrig(toks)
         j    == toks[k][1]
         E1   == CancelAll(E, Others(toks, k), TRUE)
         own  == IF S[i].pc = "wait" THEN Pid(i, 0) ELSE Pid(i, 1)
         d    == DoPutId(E1[j], own, toks[k][2], 0, EdgeDelay(j), S[i].item)
         nxt  == NextIat(i, S[i].k)
     IN /\ d.r = <<"ok">>
        /\ E' = [E1 EXCEPT ![j] = d.s]
        /\ place' = [place EXCEPT ![S[i].item] = <<"edge", j>>]
        /\ S' = [S EXCEPT ![i] = [@ EXCEPT !.pc = nxt.pc, !.rem = nxt.rem, !.item = 0, !.toks = <<>>]]
  /\ UNCHANGED <<tc, W, ctr>> /\ Step

---------------------------------------------------------------------------
(* Sink.behaviour: reserve on every in-edge, take from the lowest triggered, loop (one segment) *)
SinkStart(i) ==
  /\ N(i).type = "sink" /\ S[i].pc = "start"
  /\ LET r == ReserveAll(E, tc, N(i).ins, Pid(i, 0), FALSE, <<>>) IN
       /\ E' = r.E /\ tc' = r.tc /\ S' = [S EXCEPT ![i] = [@ EXCEPT !.pc = "wait", !.toks = r.toks]]
  /\ UNCHANGED <<W, place, ctr>> /\ Step

SinkTake(i) ==
  /\ N(i).type = "sink" /\ S[i].pc = "wait" /\ AnyTrig(S[i].toks)
  /\ LET toks == S[i].toks
         k    == FirstTrig(toks)
         j    == toks[k][1]
         E1   == CancelAll(E, Others(toks, k), FALSE)
         d    == DoGet(E1[j], Pid(i, 0), toks[k][2])
         E2   == [E1 EXCEPT ![j] = d.s]
         r    == ReserveAll(E2, tc, N(i).ins, Pid(i, 0), FALSE, <<>>)
     IN /\ d.r[1] = "item"
        /\ E' = r.E /\ tc' = r.tc
        /\ place' = [place EXCEPT ![d.r[2]] = <<"sink", i>>]
        /\ ctr' = [ctr EXCEPT ![i].recv = @ + 1, ![i].tsum = @ + now]     \* tsum: sum of the reception instants (outcome checksum)
        /\ S' = [S EXCEPT ![i] = [@ EXCEPT !.toks = r.toks]]
  /\ UNCHANGED W /\ Step

---------------------------------------------------------------------------
(* Machine.behaviour and Machine.worker *)
MachSetup(i) ==
  /\ N(i).type = "machine" /\ S[i].pc = "setup" /\ S[i].rem = 0
  /\ S' = [S EXCEPT ![i] = [@ EXCEPT !.pc = "req"]]
  /\ UNCHANGED <<E, tc, W, place, ctr>> /\ Step

\* worker_thread.request() granted: reserve input according to the in-edge policy
MachReq(i) ==
  /\ N(i).type = "machine" /\ S[i].pc = "req" /\ S[i].slots < N(i).wc
  /\ LET ins == N(i).ins
     IN \E m \in (IF N(i).pin = FA THEN {0} ELSE SelSet(N(i).pin, S[i].rr, Len(ins), N(i).pinS)) :
        LET js  == IF N(i).pin = FA THEN ins ELSE <<ins[m]>>
            r   == ReserveAll(E, tc, js, Pid(i, 0), FALSE, <<>>)
        IN
        /\ E' = r.E /\ tc' = r.tc
        /\ S' = [S EXCEPT ![i] = [@ EXCEPT !.pc = "wait", !.toks = r.toks, !.slots = @ + 1,
                                           !.rr = IF N(i).pin = FA THEN @ ELSE @ + 1]]
  /\ UNCHANGED <<W, place, ctr>> /\ Step

\* a retrieval token triggered: take from the lowest triggered in-edge, withdraw the others,
\* draw the processing delay once, start the worker, ask for the next slot
MachPull(i) ==
  /\ N(i).type = "machine" /\ S[i].pc = "wait" /\ AnyTrig(S[i].toks)
  /\ LET toks == S[i].toks
         k    == FirstTrig(toks)
         j    == toks[k][1]
         E1   == CancelAll(E, Others(toks, k), FALSE)
         d    == DoGet(E1[j], Pid(i, 0), toks[k][2])
         x    == d.r[2]
         pd   == N(i).pd[(S[i].k % Len(N(i).pd)) + 1]
     IN /\ d.r[1] = "item"
        /\ E' = [E1 EXCEPT ![j] = d.s]
        /\ place' = [place EXCEPT ![x] = <<"node", i>>]
        /\ W' = [W EXCEPT ![i] = Append(@, [pc |-> "proc", rem |-> pd, item |-> x, queue |-> <<>>, toks |-> <<>>, id |-> S[i].k + 1])]
        /\ S' = [S EXCEPT ![i] = [@ EXCEPT !.pc = "req", !.toks = <<>>, !.k = @ + 1]]
  /\ UNCHANGED <<tc, ctr>> /\ Step

IsWorkNode(i) == N(i).type \in {"machine", "splitter", "combiner"}
WPid(i, w) == Pid(i, 1 + (W[i][w].id % 8))

\* what a worker does after its current item has left (pushed or dropped): the next item of a splitter's
\* pallet, or release of the worker slot
AfterItem(wk) == IF wk.queue # <<>> THEN [wk EXCEPT !.pc = "offer", !.item = Head(wk.queue), !.queue = Tail(wk.queue), !.toks = <<>>]
                 ELSE [wk EXCEPT !.pc = "rel", !.item = 0, !.toks = <<>>]

\* the processing delay is over (machine, splitter) / the worker was started (combiner): offer the current item
WorkDone(i, w) ==
  /\ IsWorkNode(i) /\ w \in 1..Len(W[i])
  /\ (W[i][w].pc = "proc" /\ W[i][w].rem = 0) \/ W[i][w].pc = "offer"
  /\ LET outs == N(i).outs
         me   == WPid(i, w)
         x    == W[i][w].item
     IN IF N(i).pout = FA THEN
          IF N(i).blocking THEN
            LET r == ReserveAll(E, tc, outs, me, TRUE, <<>>) IN
            /\ E' = r.E /\ tc' = r.tc /\ W' = [W EXCEPT ![i][w] = [@ EXCEPT !.pc = "wait", !.toks = r.toks]]
            /\ UNCHANGED <<place, ctr, S>>
          ELSE
            IF \E m \in 1..Len(outs) : CanPut(E[outs[m]]) THEN
              LET m == CHOOSE m \in 1..Len(outs) : CanPut(E[outs[m]]) /\ \A q \in 1..(m-1) : ~CanPut(E[outs[q]])
                  r == ReserveAll(E, tc, <<outs[m]>>, me, TRUE, <<>>) IN
              /\ E' = r.E /\ tc' = r.tc /\ W' = [W EXCEPT ![i][w] = [@ EXCEPT !.pc = "sub", !.toks = r.toks]]
              /\ UNCHANGED <<place, ctr, S>>
            ELSE
              /\ place' = [place EXCEPT ![x] = <<"disc", i>>]
              /\ ctr' = [ctr EXCEPT ![i].disc = @ + 1]
              /\ W' = [W EXCEPT ![i][w] = AfterItem(@)]
              /\ UNCHANGED <<E, tc, S>>
        ELSE
          \E m \in SelSet(N(i).pout, S[i].rro, Len(outs), N(i).poutS) : LET j == outs[m] IN
          IF N(i).blocking \/ CanPut(E[j]) THEN
            LET r == ReserveAll(E, tc, <<j>>, me, TRUE, <<>>) IN
            /\ E' = r.E /\ tc' = r.tc /\ W' = [W EXCEPT ![i][w] = [@ EXCEPT !.pc = "sub", !.toks = r.toks]]
            /\ S' = [S EXCEPT ![i].rro = @ + 1]
            /\ UNCHANGED <<place, ctr>>
          ELSE
            /\ place' = [place EXCEPT ![x] = <<"disc", i>>]
            /\ ctr' = [ctr EXCEPT ![i].disc = @ + 1]
            /\ W' = [W EXCEPT ![i][w] = AfterItem(@)]
            /\ S' = [S EXCEPT ![i].rro = @ + 1]
            /\ UNCHANGED <<E, tc>>
  /\ Step

WorkPut(i, w) ==
  /\ IsWorkNode(i) /\ w \in 1..Len(W[i]) /\ W[i][w].pc \in {"wait", "sub"} /\ AnyTrig(W[i][w].toks)
  /\ LET toks == W[i][w].toks
         k    == FirstTrig(toks)
         j    == toks[k][1]
         E1   == CancelAll(E, Others(toks, k), TRUE)
         d    == DoPutId(E1[j], WPid(i, w), toks[k][2], 0, EdgeDelay(j), W[i][w].item)
     IN /\ d.r = <<"ok">>
        /\ E' = [E1 EXCEPT ![j] = d.s]
        /\ place' = [place EXCEPT ![W[i][w].item] = <<"edge", j>>]
        /\ ctr' = [ctr EXCEPT ![i].proc = @ + 1]
        /\ W' = [W EXCEPT ![i][w] = AfterItem(@)]
  /\ UNCHANGED <<tc, S>> /\ Step

\* worker_thread.release(): the slot is free again
WorkRelease(i, w) ==
  /\ IsWorkNode(i) /\ w \in 1..Len(W[i]) /\ W[i][w].pc = "rel"
  /\ W' = [W EXCEPT ![i] = DropAt(@, w)]
  /\ S' = [S EXCEPT ![i].slots = @ - 1]
  /\ UNCHANGED <<E, tc, place, ctr>> /\ Step

---------------------------------------------------------------------------
(* Splitter.behaviour: reserve (and, FIRST_AVAILABLE, commit to one in-edge) BEFORE asking for the worker;   *)
(* the pallet is taken when the worker is granted; the worker emits the contents one by one, then the pallet *)
Contents(q) == LET xs == {x \in 1..Len(place) : place[x] = <<"pal", q>>} IN
               \* in packing order = item id order within a pallet is not pinned by the model: use ascending ids
               [k \in 1..Cardinality(xs) |-> CHOOSE x \in xs : Cardinality({y \in xs : y < x}) = k - 1]

SplSetup(i) ==
  /\ N(i).type \in {"splitter", "combiner"} /\ S[i].pc = "setup" /\ S[i].rem = 0
  /\ S' = [S EXCEPT ![i] = [@ EXCEPT !.pc = "req"]]
  /\ UNCHANGED <<E, tc, W, place, ctr>> /\ Step

SplReq(i) ==
  /\ N(i).type = "splitter" /\ S[i].pc = "req"
  /\ LET ins == N(i).ins
     IN \E m \in (IF N(i).pin = FA THEN {0} ELSE SelSet(N(i).pin, S[i].rr, Len(ins), N(i).pinS)) :
        LET js  == IF N(i).pin = FA THEN ins ELSE <<ins[m]>>
            r   == ReserveAll(E, tc, js, Pid(i, 0), FALSE, <<>>)
        IN
        /\ E' = r.E /\ tc' = r.tc
        /\ S' = [S EXCEPT ![i] = [@ EXCEPT !.pc = "wait", !.toks = r.toks, !.rr = IF N(i).pin = FA THEN @ ELSE @ + 1]]
  /\ UNCHANGED <<W, place, ctr>> /\ Step

\* a token triggered: keep the lowest triggered one, withdraw the others, ask for the worker
SplChoose(i) ==
  /\ N(i).type = "splitter" /\ S[i].pc = "wait" /\ AnyTrig(S[i].toks)
  /\ LET toks == S[i].toks k == FirstTrig(toks) IN
       /\ E' = CancelAll(E, Others(toks, k), FALSE)
       /\ S' = [S EXCEPT ![i] = [@ EXCEPT !.pc = "reqw", !.toks = <<toks[k]>>]]
  /\ UNCHANGED <<tc, W, place, ctr>> /\ Step

SplPull(i) ==
  /\ N(i).type = "splitter" /\ S[i].pc = "reqw" /\ S[i].slots < 1
  /\ LET j  == S[i].toks[1][1]
         d  == DoGet(E[j], Pid(i, 0), S[i].toks[1][2])
         q  == d.r[2]
         pd == N(i).pd[(S[i].k % Len(N(i).pd)) + 1]
         cs == Contents(q)
     IN /\ d.r[1] = "item"
        /\ E' = [E EXCEPT ![j] = d.s]
        /\ place' = [place EXCEPT ![q] = <<"node", i>>]
        /\ W' = [W EXCEPT ![i] = Append(@, [pc |-> "proc", rem |-> pd, item |-> IF cs = <<>> THEN q ELSE Head(cs),
                                           queue |-> IF cs = <<>> THEN <<>> ELSE Append(Tail(cs), q), toks |-> <<>>, id |-> S[i].k + 1])]
        /\ S' = [S EXCEPT ![i] = [@ EXCEPT !.pc = "req", !.toks = <<>>, !.k = @ + 1, !.slots = @ + 1]]
  /\ UNCHANGED <<tc, ctr>> /\ Step

---------------------------------------------------------------------------
(* Combiner.behaviour: pallet from in-edge 1, then recipe[e] items from every other in-edge e (a gather-all batch *)
(* consumed token by token), then the delay once the single worker is free, then a worker pushes the pallet       *)
RECURSIVE Repeat(_, _)
Repeat(x, n) == IF n = 0 THEN <<>> ELSE <<x>> \o Repeat(x, n - 1)
RECURSIVE IngredientEdges(_, _)
IngredientEdges(i, e) == IF e > Len(N(i).ins) THEN <<>> ELSE Repeat(N(i).ins[e], N(i).recipe[e]) \o IngredientEdges(i, e + 1)

CombReq(i) ==
  /\ N(i).type = "combiner" /\ S[i].pc = "req"
  /\ LET r == ReserveAll(E, tc, <<N(i).ins[1]>>, Pid(i, 0), FALSE, <<>>) IN
       /\ E' = r.E /\ tc' = r.tc /\ S' = [S EXCEPT ![i] = [@ EXCEPT !.pc = "waitp", !.toks = r.toks]]
  /\ UNCHANGED <<W, place, ctr>> /\ Step

CombPallet(i) ==
  /\ N(i).type = "combiner" /\ S[i].pc = "waitp" /\ AnyTrig(S[i].toks)
  /\ LET j  == S[i].toks[1][1]
         d  == DoGet(E[j], Pid(i, 0), S[i].toks[1][2])
         q  == d.r[2]
         E1 == [E EXCEPT ![j] = d.s]
         r  == ReserveAll(E1, tc, IngredientEdges(i, 2), Pid(i, 0), FALSE, <<>>)
     IN /\ d.r[1] = "item"
        /\ E' = r.E /\ tc' = r.tc
        /\ place' = [place EXCEPT ![q] = <<"node", i>>]
        /\ S' = [S EXCEPT ![i] = [@ EXCEPT !.pc = IF r.toks = <<>> THEN "reqw" ELSE "gather", !.toks = r.toks, !.item = q]]
  /\ UNCHANGED <<W, ctr>> /\ Step

\* one ingredient token triggered: take that item into the pallet (first triggered token in list order)
CombGather(i) ==
  /\ N(i).type = "combiner" /\ S[i].pc = "gather" /\ AnyTrig(S[i].toks)
  /\ LET toks == S[i].toks
         k    == FirstTrig(toks)
         j    == toks[k][1]
         d    == DoGet(E[j], Pid(i, 0), toks[k][2])
         rest == Others(toks, k)
     IN /\ d.r[1] = "item"
        /\ E' = [E EXCEPT ![j] = d.s]
        /\ place' = [place EXCEPT ![d.r[2]] = <<"pal", S[i].item>>]
        /\ ctr' = [ctr EXCEPT ![i].org = Append(@, <<d.r[2], PosOfEdge(i, j)>>)]
        /\ S' = [S EXCEPT ![i] = [@ EXCEPT !.pc = IF rest = <<>> THEN "reqw" ELSE "gather", !.toks = rest]]
  /\ UNCHANGED <<tc, W>> /\ Step

\* worker_thread.request() granted: the processing delay starts
CombStart(i) ==
  /\ N(i).type = "combiner" /\ S[i].pc = "reqw" /\ S[i].slots < 1
  /\ S' = [S EXCEPT ![i] = [@ EXCEPT !.pc = "proc", !.rem = N(i).pd[(S[i].k % Len(N(i).pd)) + 1], !.slots = @ + 1]]
  /\ UNCHANGED <<E, tc, W, place, ctr>> /\ Step

CombSpawn(i) ==
  /\ N(i).type = "combiner" /\ S[i].pc = "proc" /\ S[i].rem = 0
  /\ W' = [W EXCEPT ![i] = Append(@, [pc |-> "offer", rem |-> 0, item |-> S[i].item, queue |-> <<>>, toks |-> <<>>, id |-> S[i].k + 1])]
  /\ S' = [S EXCEPT ![i] = [@ EXCEPT !.pc = "req", !.item = 0, !.k = @ + 1]]
  /\ UNCHANGED <<E, tc, place, ctr>> /\ Step

---------------------------------------------------------------------------
(* edge timers *)
EdgeFire(j) ==
  /\ AnyDue(E[j])
  /\ \/ DueItems(E[j]) # {} /\ E' = [E EXCEPT ![j] = FireItem(@)]
     \/ ActDue(E[j]) /\ E' = [E EXCEPT ![j] = FireAct(@)]
     \/ \E k \in DueTrips(E[j]) : E' = [E EXCEPT ![j] = FireTrip(@, k)]
     \/ DueTimers(E[j]) # {} /\ E' = [E EXCEPT ![j] = FireTimer(@)]          \* slotted conveyor: end of an entry phase
  /\ UNCHANGED <<tc, S, W, place, ctr>> /\ Step

NodeAct ==
  \E i \in Nodes :
     \/ SrcSetup(i) \/ SrcCreate(i) \/ SrcPut(i)
     \/ SinkStart(i) \/ SinkTake(i)
     \/ MachSetup(i) \/ MachReq(i) \/ MachPull(i)
     \/ SplSetup(i) \/ SplReq(i) \/ SplChoose(i) \/ SplPull(i)
     \/ CombReq(i) \/ CombPallet(i) \/ CombGather(i) \/ CombStart(i) \/ CombSpawn(i)
     \/ \E w \in 1..Len(W[i]) : WorkDone(i, w) \/ WorkPut(i, w) \/ WorkRelease(i, w)

NodeUrgent(i) ==
  LET t == N(i).type IN
  \/ (t = "source" /\ S[i].pc \in {"setup", "gen"} /\ S[i].rem = 0)
  \/ (t = "source" /\ S[i].pc \in {"wait", "sub"} /\ AnyTrig(S[i].toks))
  \/ (t = "sink" /\ (S[i].pc = "start" \/ AnyTrig(S[i].toks)))
  \/ (t \in {"machine", "splitter", "combiner"} /\ S[i].pc = "setup" /\ S[i].rem = 0)
  \/ (t = "machine" /\ S[i].pc = "req" /\ S[i].slots < N(i).wc)
  \/ (t = "machine" /\ S[i].pc = "wait" /\ AnyTrig(S[i].toks))
  \/ (t = "splitter" /\ (S[i].pc = "req" \/ (S[i].pc = "wait" /\ AnyTrig(S[i].toks)) \/ (S[i].pc = "reqw" /\ S[i].slots < 1)))
  \/ (t = "combiner" /\ (S[i].pc = "req" \/ (S[i].pc \in {"waitp", "gather"} /\ AnyTrig(S[i].toks))
                          \/ (S[i].pc = "reqw" /\ S[i].slots < 1) \/ (S[i].pc = "proc" /\ S[i].rem = 0)))
  \/ \E w \in 1..Len(W[i]) : \/ (W[i][w].pc = "proc" /\ W[i][w].rem = 0)
                              \/ W[i][w].pc = "offer"
                              \/ (W[i][w].pc \in {"wait", "sub"} /\ AnyTrig(W[i][w].toks))
                              \/ W[i][w].pc = "rel"
Urgent == (\E i \in Nodes : NodeUrgent(i)) \/ (\E j \in Edges : AnyDue(E[j]))

Tick ==
  /\ ~Urgent /\ now < MaxT
  /\ now' = now + 1 /\ steps' = 0 /\ cid' = cid
  /\ E' = [j \in Edges |-> DoTick(E[j])]
  /\ S' = [i \in Nodes |-> [S[i] EXCEPT !.rem = Dec(@)]]
  /\ W' = [i \in Nodes |-> [w \in 1..Len(W[i]) |-> [W[i][w] EXCEPT !.rem = Dec(@)]]]
  /\ UNCHANGED <<tc, place, ctr>>

Next == NodeAct \/ (\E j \in Edges : EdgeFire(j)) \/ Tick

Spec == Init /\ [][Next]_vars

---------------------------------------------------------------------------
(* The listed properties at design level (all interleavings) *)
Items == 1..Len(place)
InStore(j) == {E[j].items[k].id : k \in 1..Len(E[j].items)} \cup {E[j].ready[k].id : k \in 1..Len(E[j].ready)}
LiveToks(j) == LiveNums(E[j])

\* C01 on every edge
F_C01_Cap == \A j \in Edges : Len(E[j].putRes) + NInside(E[j]) <= C.edges[j].cap

\* C03: every created item is in exactly one place, and the ground-truth place agrees with the containers
HeldBy(i) == ((IF S[i].item # 0 THEN {S[i].item} ELSE {}) \cup {W[i][w].item : w \in 1..Len(W[i])}
              \cup UNION {{W[i][w].queue[k] : k \in 1..Len(W[i][w].queue)} : w \in 1..Len(W[i])}) \ {0}
InPallet(x) == place[x][1] = "pal"
F_C03_OnePlace ==
  /\ \A x \in Items :
        LET p == place[x] IN
        CASE p[1] = "edge" -> x \in InStore(p[2])
          [] p[1] \in {"src", "node"} -> x \in HeldBy(p[2])
          [] p[1] = "pal" -> p[2] \in Items /\ place[p[2]][1] \in {"node", "edge", "sink", "disc"}
          [] OTHER -> TRUE
  /\ \A j \in Edges : \A x \in InStore(j) : place[x] = <<"edge", j>>
  /\ \A i \in Nodes : \A x \in HeldBy(i) :
        \/ (place[x][2] = i /\ place[x][1] \in {"src", "node"})
        \/ (InPallet(x) /\ place[place[x][2]] = <<"node", i>>)
  /\ \A j \in Edges : NInside(E[j]) = Cardinality(InStore(j))
F_C03_Counts ==
  LET gen  == Cardinality({x \in Items : TRUE})
      inE  == Cardinality({x \in Items : place[x][1] = "edge"})
      inN  == Cardinality({x \in Items : place[x][1] \in {"src", "node"}})
      disc == Cardinality({x \in Items : place[x][1] = "disc"})
      recv == Cardinality({x \in Items : place[x][1] = "sink"})
      pk   == Cardinality({x \in Items : place[x][1] = "pal"})
  IN /\ gen = inE + inN + pk + disc + recv
     /\ \A i \in Nodes : ctr[i].disc = Cardinality({x \in Items : place[x] = <<"disc", i>>})
                      /\ ctr[i].recv = Cardinality({x \in Items : place[x] = <<"sink", i>>})
\* finite input, nothing urgent, no timer left: everything generated is received or discarded
NoTimers == /\ \A i \in Nodes : S[i].pc \notin {"setup", "gen", "proc"} /\ \A w \in 1..Len(W[i]) : W[i][w].pc # "proc"
            /\ \A j \in Edges : E[j].c.kind = "buffer" /\ E[j].items = <<>>
F_C03_Quiescent == (~Urgent /\ NoTimers /\ C.drains) =>
     \A x \in Items : place[x][1] \in {"sink", "disc"} \/ (InPallet(x) /\ place[place[x][2]][1] \in {"sink", "disc"})

\* C04 on every edge at the end of an instant
F_C04_EOI == ~Urgent => \A j \in Edges :
     /\ ~(E[j].putQ # <<>> /\ PutRoom(E[j]) /\ (Slotted(E[j]) => E[j].putRes = <<>>))     \* (slotted: one admission per slot)
     /\ ~(E[j].getQ # <<>> /\ Len(E[j].getRes) < Len(E[j].ready))

\* C08: work capacity
F_C08_Cap == \A i \in Nodes : /\ N(i).type = "machine" => (Len(W[i]) <= N(i).wc /\ S[i].slots <= N(i).wc /\ Len(W[i]) <= S[i].slots)
                              /\ N(i).type \in {"splitter", "combiner"} => (Len(W[i]) <= 1 /\ S[i].slots <= 1)

\* C09
F_C09_BlockingNoDiscard == \A i \in Nodes : N(i).blocking => ctr[i].disc = 0
F_C09_NonBlockingNow == ~Urgent => \A i \in Nodes : (~N(i).blocking /\ N(i).type # "sink") =>
     /\ (N(i).type = "source" => S[i].pc \notin {"wait", "sub"})
     /\ \A w \in 1..Len(W[i]) : W[i][w].pc = "proc" \/ N(i).type = "combiner"

\* C16: a pallet in the hands of a combiner's worker carries exactly the recipe; a splitter's worker still has to emit
\* exactly the remaining contents and then the pallet itself
F_C16_Recipe == \A i \in Nodes : N(i).type = "combiner" => \A w \in 1..Len(W[i]) : W[i][w].item # 0 =>
     LET q == W[i][w].item IN
     \A e \in 2..Len(N(i).ins) :
        Cardinality({x \in Items : place[x] = <<"pal", q>> /\ \E k \in 1..Len(ctr[i].org) : ctr[i].org[k] = <<x, e>>}) = N(i).recipe[e]
F_C16_SplitterEmits == \A i \in Nodes : N(i).type = "splitter" => \A w \in 1..Len(W[i]) : W[i][w].item # 0 =>
     LET wk == W[i][w]
         todo == <<wk.item>> \o wk.queue
         q == todo[Len(todo)]
     IN /\ place[q] = <<"node", i>>
        /\ {todo[k] : k \in 1..(Len(todo) - 1)} = {x \in Items : place[x] = <<"pal", q>>}
        /\ Cardinality({todo[k] : k \in 1..Len(todo)}) = Len(todo)

\* C10 at the end of an instant
AllToks == UNION {{<<S[i].toks[k][1], S[i].toks[k][2]>> : k \in 1..Len(S[i].toks)} : i \in Nodes}
           \cup UNION {UNION {{<<W[i][w].toks[k][1], W[i][w].toks[k][2]>> : k \in 1..Len(W[i][w].toks)} : w \in 1..Len(W[i])} : i \in Nodes}
F_C10_NoOrphan == \A j \in Edges : \A n \in LiveToks(j) : <<j, n>> \in AllToks
F_C10_GrantedUsed == ~Urgent => \A j \in Edges :
     /\ E[j].putRes = <<>>
     /\ \A k \in 1..Len(E[j].getRes) : \E i \in Nodes : N(i).type = "splitter" /\ S[i].pc = "reqw" /\ S[i].slots = 1
                                          /\ S[i].toks = <<<<j, E[j].getRes[k].n>>>>
AvailUnres(j) == Len(E[j].ready) - Len(E[j].getRes)
F_C10_TakeInput == ~Urgent => \A i \in Nodes :
     /\ (N(i).type = "sink") => \A k \in 1..Len(N(i).ins) : AvailUnres(N(i).ins[k]) <= 0
     /\ (N(i).type = "machine" /\ S[i].pc \in {"req", "wait"} /\ Len(W[i]) < N(i).wc) =>
          IF N(i).pin = FA THEN \A k \in 1..Len(N(i).ins) : AvailUnres(N(i).ins[k]) <= 0
          ELSE \A k \in 1..Len(S[i].toks) : AvailUnres(S[i].toks[k][1]) <= 0
Accepts(s) == CanPut(s) /\ (Slotted(s) => Spaced(s))       \* room (and, on a slotted conveyor, the admission spacing)
F_C10_PushOutput == ~Urgent => \A i \in Nodes :
     /\ \A w \in 1..Len(W[i]) : (W[i][w].pc = "wait") =>
           \A k \in 1..Len(N(i).outs) : ~Accepts(E[N(i).outs[k]])
     /\ (N(i).type = "source" /\ S[i].pc = "wait") => \A k \in 1..Len(N(i).outs) : ~Accepts(E[N(i).outs[k]])

\* Leg B for factories: the set of outcomes the design allows at the horizon (counters of every node, the sum of the
\* instants at which each sink received its items, number of items in every edge), printed once per terminal state; the real run of the same configuration must be one of them
Flat == [i \in 1..(5 * NN + NE) |->
           IF i <= 5 * NN
           THEN LET n == ((i - 1) \div 5) + 1 k == (i - 1) % 5 IN
                CASE k = 0 -> ctr[n].gen [] k = 1 -> ctr[n].disc [] k = 2 -> ctr[n].proc [] k = 3 -> ctr[n].recv [] OTHER -> ctr[n].tsum
           ELSE NInside(E[i - 5 * NN])]
ReportOutcome == (now = MaxT /\ ~Urgent) => PrintT(<<"F", cid, Flat>>)
\* ... and the same figures at the end of EVERY instant: the real run must agree with the design at each of its
\* end-of-instant snapshots, not only at the horizon
ReportInstants == ~Urgent => PrintT(<<"E", cid, now, Flat>>)

\* C20: finitely many actions per instant
F_C20_FiniteInstant == steps <= MaxSteps
=============================================================================
