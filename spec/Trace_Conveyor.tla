-------------------------- MODULE Trace_Conveyor -------------------------
(***************************************************************************)
(* Leg C for conveyors: recorded runs of the REAL conveyor edges           *)
(* (continuous / slotted, accumulating or not) under a scripted producer   *)
(* and consumer, replayed as TLA+ behaviours.  The log says when each item *)
(* was requested, admitted (space reservation granted), entered, offered   *)
(* at the exit and taken; the fold keeps per-item instants and the         *)
(* cumulative time the belt was STALLED (head offered, nobody has reserved *)
(* it).  The clauses are C12 / C13 in the closed forms that TLC proves for *)
(* the positional reference model ConveyorRef.tla:                         *)
(*   non-accumulating  offer = enter + L + stalled time in between         *)
(*   accumulating      offer = max(enter + L, take(predecessor) + Slot)    *)
(* L = Cap * Slot ticks.                                                   *)
(***************************************************************************)
EXTENDS Integers, Sequences, FiniteSets, TLC, Json, IOUtils

Traces == JsonDeserialize(IOEnv.TRACE_FILE)

VARIABLES tid, l, B, e
vars == <<tid, l, B, e>>

Cfg   == Traces[tid].cfg
Cap   == Cfg.cap
Slot  == Cfg.slot
Acc   == Cfg.acc = 1
L     == Cap * Slot
NEv(t) == Len(Traces[t].ev)
Max(a, b) == IF a > b THEN a ELSE b

NoEvent == [k |-> "init", t |-> 0, it |-> 0, n |-> 0, rd |-> 0, gg |-> 0, gp |-> 0]

\* per item: req, grant, enter, offer, take instants (-1 = not yet), cs = cumulative stall time at entry
Item0 == [req |-> -1, grant |-> -1, enter |-> -1, offer |-> -1, take |-> -1, cs |-> 0, pred |-> 0]

Ledger0 == [now |-> 0, it |-> <<>>,           \* items by id (ids are issued 1, 2, 3, ... in request order)
            order |-> <<>>,                  \* ids in entry order
            cs |-> 0,                        \* cumulative stalled time so far
            stall |-> -1,                    \* start of the current stall or -1
            lastEnter |-> -1, offers |-> <<>>, takes |-> <<>>]

Pad(q, n) == IF Len(q) >= n THEN q ELSE q \o [i \in 1..(n - Len(q)) |-> Item0]

Step(G0, ev) ==
  LET \* a stall runs while something is offered and nobody holds a retrieval reservation
      G  == [G0 EXCEPT !.now = ev.t]
      x  == ev.it
      G1 == CASE ev.k = "req"   -> [G EXCEPT !.it = [Pad(@, x) EXCEPT ![x].req = ev.t]]
              [] ev.k = "grant" -> [G EXCEPT !.it = [Pad(@, x) EXCEPT ![x].grant = ev.t]]
              [] ev.k = "enter" -> [G EXCEPT !.it = [Pad(@, x) EXCEPT ![x].enter = ev.t,
                                                                      ![x].cs = G.cs + (IF G.stall >= 0 THEN ev.t - G.stall ELSE 0),
                                                                      ![x].pred = IF G.order = <<>> THEN 0 ELSE G.order[Len(G.order)]],
                                             !.order = Append(@, x), !.lastEnter = ev.t]
              [] ev.k = "offer" -> [G EXCEPT !.it = [Pad(@, x) EXCEPT ![x].offer = ev.t], !.offers = Append(@, x)]
              [] ev.k = "take"  -> [G EXCEPT !.it = [Pad(@, x) EXCEPT ![x].take = ev.t], !.takes = Append(@, x)]
              [] ev.k = "cancel" -> [G EXCEPT !.it = [Pad(@, x) EXCEPT ![x].req = -1, ![x].grant = -1]]   \* reservation withdrawn
              [] OTHER -> G
      stalledNow == ev.rd > 0 /\ ev.gg = 0
  IN IF stalledNow /\ G1.stall < 0 THEN [G1 EXCEPT !.stall = ev.t]
     ELSE IF ~stalledNow /\ G1.stall >= 0 THEN [G1 EXCEPT !.cs = @ + (ev.t - G1.stall), !.stall = -1]
     ELSE G1

Init == tid \in 1..Len(Traces) /\ l = 0 /\ B = Ledger0 /\ e = NoEvent
Next == /\ l < NEv(tid) /\ l' = l + 1 /\ tid' = tid
        /\ e' = Traces[tid].ev[l + 1]
        /\ B' = Step(B, Traces[tid].ev[l + 1])

T_WF == \A i \in 1..Len(B.it) : B.it[i].enter >= 0 => B.it[i].req >= 0
T_TimeMonotone == [][e'.t >= B.now]_vars

\* stalled time accumulated up to now (including the running stall)
CsNow == B.cs + (IF B.stall >= 0 THEN B.now - B.stall ELSE 0)
It(x) == B.it[x]

---------------------------------------------------------------------------
(* C12 *)
T_C12_Cap      == e.n + e.gp <= Cap
T_C12_Order    == \A i \in 1..Len(B.offers) : i <= Len(B.order) /\ B.offers[i] = B.order[i]
T_C12_TakeOrder == \A i \in 1..Len(B.takes) : i <= Len(B.order) /\ B.takes[i] = B.order[i]
T_C12_Spacing  == [][(e'.k = "enter" /\ B.lastEnter >= 0) => e'.t - B.lastEnter >= Slot]_vars
T_C12_MinTravel == [][(e'.k = "offer" /\ e'.it <= Len(B.it)) => e'.t - It(e'.it).enter >= L]_vars
\* taken as soon as offered, every time: travel time is exactly L
T_C12_ExactIfFree == [][(e'.k = "offer" /\ e'.it <= Len(B.it) /\ CsNow = 0 /\ B'.cs = 0 /\ B.stall < 0) =>
                           e'.t - It(e'.it).enter = L]_vars

(* C13, non-accumulating: nothing is admitted while stalled, nothing advances while stalled *)
\* (judged in event order: a reservation granted in the very kernel step in which the head arrives is logged before
\*  the offer and is not a grant "while the head waits")
T_C13_NoAdmit == [][(~Acc /\ e'.k = "grant") => B.stall < 0]_vars
T_C13_Frozen  == [][(~Acc /\ e'.k = "offer" /\ e'.it <= Len(B.it)) =>
                       LET x == It(e'.it)
                           st == (B.cs + (IF B.stall >= 0 THEN e'.t - B.stall ELSE 0)) - x.cs
                       IN e'.t = x.enter + L + st]_vars
(* C13, accumulating: followers close up to one item length behind the item ahead *)
T_C13_CloseUp == [][(Acc /\ e'.k = "offer" /\ e'.it <= Len(B.it)) =>
                       LET x == It(e'.it)
                           pt == IF x.pred = 0 THEN -1 - Slot ELSE It(x.pred).take
                       IN /\ (x.pred # 0 => It(x.pred).take >= 0)
                          /\ e'.t = Max(x.enter + L, pt + Slot)]_vars
\* accumulating: a pending request is admitted as soon as there is a free place and the last item
\* has moved one item length (judged at the end of an instant)
LastPos == IF B.order = <<>> THEN L
           ELSE LET x == It(B.order[Len(B.order)]) IN
                IF x.offer >= 0 THEN L
                ELSE IF x.pred = 0 \/ It(x.pred).take >= 0 THEN B.now - x.enter
                ELSE -1     \* behind a waiting item: position not derived here
T_C13_AdmitToCap ==
  \* somebody is waiting for space (then the request at the head of the line is waiting too)
  (Acc /\ e.k = "eoi" /\ (\E i \in 1..Len(B.it) : It(i).req >= 0 /\ It(i).grant < 0)) =>
         ~(e.n + e.gp < Cap /\ LastPos >= Slot /\ B.now - B.lastEnter >= Slot)
=============================================================================
