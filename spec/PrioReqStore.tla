--------------------------- MODULE PrioReqStore ---------------------------
(***************************************************************************)
(* base/priority_req_store.py: SimPy's Store whose put and get queues are  *)
(* SortedQueue (append + stable sort on key = (priority, time)).  A put /   *)
(* get REQUEST is itself the event; it is served by SimPy's _trigger_put /  *)
(* _trigger_get, which look at the head of the queue only (Store._do_put /  *)
(* _do_get return None, so the loop stops after one element).  The other    *)
(* side is re-triggered when a served request is PROCESSED by the kernel,   *)
(* i.e. one kernel hop later -- modelled by the counters kickPut / kickGet. *)
(* Requests are numbered canonically (rank among waiting requests).        *)
(***************************************************************************)
EXTENDS Integers, Sequences, FiniteSets, TLC

CONSTANTS Cap, Prios, MaxQ      \* capacity, priorities, bound on waiting requests per side

VARIABLES putQ, getQ, items, kickPut, kickGet, now, served
vars == <<putQ, getQ, items, kickPut, kickGet, now, served>>

Req(n, prio, t) == [n |-> n, prio |-> prio, t |-> t]
KeyLE(a, b) == a.prio < b.prio \/ (a.prio = b.prio /\ a.n <= b.n)   \* n = arrival rank = (time, arrival) order
InsertSorted(q, r) ==
  LET k == Cardinality({i \in 1..Len(q) : KeyLE(q[i], r)})
  IN SubSeq(q, 1, k) \o <<r>> \o SubSeq(q, k+1, Len(q))
MaxN(q) == IF q = <<>> THEN 0 ELSE CHOOSE m \in {q[i].n : i \in 1..Len(q)} : \A i \in 1..Len(q) : q[i].n <= m
DropAt(q, i) == SubSeq(q, 1, i-1) \o SubSeq(q, i+1, Len(q))
Renumber(q) == [i \in 1..Len(q) |-> [q[i] EXCEPT !.n = Cardinality({j \in 1..Len(q) : q[j].n <= q[i].n})]]
\* canonical view: waiting requests renumbered by rank, so the graph is finite for unbounded histories
View == <<Renumber(putQ), Renumber(getQ), items, kickPut, kickGet, served # <<>>>>
Bound == kickPut <= 3 /\ kickGet <= 3 /\ MaxN(putQ) <= 8 /\ MaxN(getQ) <= 8

Init == putQ = <<>> /\ getQ = <<>> /\ items = 0 /\ kickPut = 0 /\ kickGet = 0 /\ now = 0 /\ served = <<>>

\* _trigger_put: the head only
TrigPut == IF putQ # <<>> /\ items < Cap THEN [q |-> Tail(putQ), it |-> items + 1, s |-> <<"put", Head(putQ)>>, kick |-> TRUE]
           ELSE [q |-> putQ, it |-> items, s |-> <<>>, kick |-> FALSE]
TrigGet == IF getQ # <<>> /\ items > 0 THEN [q |-> Tail(getQ), it |-> items - 1, s |-> <<"get", Head(getQ)>>, kick |-> TRUE]
           ELSE [q |-> getQ, it |-> items, s |-> <<>>, kick |-> FALSE]

PutReq(p) == /\ Len(putQ) < MaxQ
             /\ LET q1 == InsertSorted(putQ, Req(MaxN(putQ) + 1, p, 0)) IN
                IF items < Cap THEN /\ putQ' = Tail(q1) /\ items' = items + 1 /\ served' = <<"put", Head(q1)>> /\ kickGet' = kickGet + 1
                ELSE /\ putQ' = q1 /\ items' = items /\ served' = <<>> /\ kickGet' = kickGet
             /\ UNCHANGED <<getQ, kickPut, now>>
GetReq(p) == /\ Len(getQ) < MaxQ
             /\ LET q1 == InsertSorted(getQ, Req(MaxN(getQ) + 1, p, 0)) IN
                IF items > 0 THEN /\ getQ' = Tail(q1) /\ items' = items - 1 /\ served' = <<"get", Head(q1)>> /\ kickPut' = kickPut + 1
                ELSE /\ getQ' = q1 /\ items' = items /\ served' = <<>> /\ kickPut' = kickPut
             /\ UNCHANGED <<putQ, kickGet, now>>
CancelPut(i) == i \in 1..Len(putQ) /\ putQ' = DropAt(putQ, i) /\ served' = <<>> /\ UNCHANGED <<getQ, items, kickPut, kickGet, now>>
CancelGet(i) == i \in 1..Len(getQ) /\ getQ' = DropAt(getQ, i) /\ served' = <<>> /\ UNCHANGED <<putQ, items, kickPut, kickGet, now>>
\* the kernel processes a served request: the opposite queue is looked at
KickPut == kickPut > 0 /\ LET r == TrigPut IN putQ' = r.q /\ items' = r.it /\ served' = r.s /\ kickPut' = kickPut - 1
                                         /\ kickGet' = kickGet + (IF r.kick THEN 1 ELSE 0) /\ UNCHANGED <<getQ, now>>
KickGet == kickGet > 0 /\ LET r == TrigGet IN getQ' = r.q /\ items' = r.it /\ served' = r.s /\ kickGet' = kickGet - 1
                                         /\ kickPut' = kickPut + (IF r.kick THEN 1 ELSE 0) /\ UNCHANGED <<putQ, now>>
Next == (\E p \in Prios : PutReq(p) \/ GetReq(p)) \/ (\E i \in 1..MaxQ : CancelPut(i) \/ CancelGet(i)) \/ KickPut \/ KickGet

(* C05: queues ordered by (priority, time, arrival); whoever is served was the head: nobody with a smaller key waits *)
P_C05_Sorted == \A q \in {putQ, getQ} : \A i, j \in 1..Len(q) : i < j => KeyLE(q[i], q[j])
P_C05_ServedIsMin == served # <<>> =>
   LET r == served[2] q == IF served[1] = "put" THEN putQ ELSE getQ IN \A i \in 1..Len(q) : KeyLE(r, q[i])
(* C01 / C04 at the end of an instant *)
P_C01_Cap == items <= Cap /\ items >= 0
P_C04_EOI == (kickPut = 0 /\ kickGet = 0) => (~(putQ # <<>> /\ items < Cap) /\ ~(getQ # <<>> /\ items > 0))
=============================================================================
