-------------------------- MODULE Trace_Factory --------------------------
(***************************************************************************)
(* Leg C for whole factories: recorded runs of REAL factories (sources,    *)
(* machines, splitters, combiners, sinks over buffer / fleet / conveyor    *)
(* edges) are replayed as TLA+ behaviours; TLC evaluates the listed        *)
(* properties C03, C08, C09, C10, C15-C18, C20 in every state / step.      *)
(*                                                                         *)
(* The log contains: item creations, every protocol call on an edge with   *)
(* caller (node, process, role), token, item and result, the consultation  *)
(* of every user-supplied delay / selector, every counter increment, an    *)
(* end-of-instant snapshot (edge contents, node references, live tokens    *)
(* with their trigger flags) and the finalised statistics.  A deterministic*)
(* ledger F (who holds which item since when, what was drawn for it, which *)
(* tokens are alive, time integrals) is folded over the log; the clauses   *)
(* relate the ledger to the independent observations in the log.           *)
(* Indices are 1-based (node 0 = "no node").  Times are integer ticks.     *)
(***************************************************************************)
EXTENDS Integers, Sequences, FiniteSets, TLC, Json, IOUtils

Traces == JsonDeserialize(IOEnv.TRACE_FILE)

VARIABLES tid, l, F, e
vars == <<tid, l, F, e>>

Cfg      == Traces[tid].cfg
Node(n)  == Cfg.nodes[n]
Edge(j)  == Cfg.edges[j]
NN       == Len(Cfg.nodes)
NE       == Len(Cfg.edges)
NEv(t)   == Len(Traces[t].ev)
Range(q) == {q[i] : i \in 1..Len(q)}
PosOf(q, x) == IF \E i \in 1..Len(q) : q[i] = x THEN CHOOSE i \in 1..Len(q) : q[i] = x ELSE 0
Sum(f, S) == LET RECURSIVE SumR(_) SumR(T) == IF T = {} THEN 0 ELSE LET x == CHOOSE y \in T : TRUE IN f[x] + SumR(T \ {x}) IN SumR(S)
Max(a, b) == IF a > b THEN a ELSE b

NoEvent == [k |-> "init", t |-> 0]

(* item record: pl = <<kind, index>> with kind in src / edge / node / pal / disc / sink *)
NewItem(t, n, pal) == [pl |-> <<"src", n>>, since |-> t, cr |-> t, pal |-> pal, due |-> -1, drawAt |-> -1,
                       offered |-> -1, from |-> 0, unit |-> FALSE, recvAt |-> -1, crStamp |-> -1, exact |-> TRUE, offE |-> 0, uoff |-> -1]

NodeL0 == [held |-> 0, pulls |-> <<>>, pushes |-> <<>>, disc |-> 0, gen |-> 0, recv |-> 0, proc |-> 0,
           last |-> 0, cur |-> 0, selIn |-> <<>>, selOut |-> <<>>, nOff |-> 0, pend |-> 0,
           tProc |-> 0, tBlk |-> 0, tIdle |-> 0, tAnyP |-> 0, tAllP |-> 0, tAnyB |-> 0, tAllB |-> 0, cyc |-> 0,
           exp |-> {}, wantPal |-> 0, inexact |-> FALSE]
EdgeL0 == [ins |-> <<>>, area |-> 0]

Ledger0 == [now |-> 0, it |-> <<>>, tk |-> <<>>,
            nd |-> [n \in 1..NN |-> NodeL0], ed |-> [j \in 1..NE |-> EdgeL0], bad |-> <<>>]

---------------------------------------------------------------------------
(* ground truth about what a node is doing at ledger time, from the ledger *)
UnitsOf(G, n) == {x \in 1..Len(G.it) : G.it[x].pl = <<"node", n>> /\ G.it[x].unit}
\* a combiner is "processing" only during its delay, not while it gathers ingredients for a pallet
NProc(G, n) == IF Node(n).type = "combiner"
               THEN Cardinality({x \in UnitsOf(G, n) : G.it[x].due >= 0 /\ G.now < G.it[x].due})
               ELSE Cardinality({x \in UnitsOf(G, n) : G.it[x].due < 0 \/ G.now < G.it[x].due})
NBlk(G, n)  == Cardinality({x \in UnitsOf(G, n) : G.it[x].due >= 0 /\ G.now >= G.it[x].due})
SrcHolds(G, n) == \E x \in 1..Len(G.it) : G.it[x].pl = <<"src", n>>

(* advance ledger time to t: time integrals *)
Advance(G, t) ==
  LET dt == t - G.now IN
  IF dt <= 0 THEN G ELSE
  [G EXCEPT !.now = t,
     !.ed = [j \in 1..NE |-> [@[j] EXCEPT !.area = @ + dt * Len(G.ed[j].ins)]],
     !.nd = [n \in 1..NN |->
        LET np == NProc(G, n) nb == NBlk(G, n)
            setupEnd == Node(n).setup
            \* the part of [now, t) after the set-up period
            d2 == IF G.now >= setupEnd THEN dt ELSE IF t <= setupEnd THEN 0 ELSE t - setupEnd
        IN [@[n] EXCEPT
              !.tProc = @ + (IF np > 0 THEN d2 ELSE 0),
              !.tBlk  = @ + (IF np = 0 /\ (nb > 0 \/ (Node(n).type = "source" /\ SrcHolds(G, n))) THEN d2 ELSE 0),
              !.tIdle = @ + (IF np = 0 /\ nb = 0 /\ ~(Node(n).type = "source" /\ SrcHolds(G, n)) THEN d2 ELSE 0),
              !.tAnyP = @ + (IF np > 0 THEN d2 ELSE 0),
              !.tAllP = @ + (IF np > 0 /\ nb = 0 THEN d2 ELSE 0),
              !.tAnyB = @ + (IF nb > 0 THEN d2 ELSE 0),
              !.tAllB = @ + (IF nb > 0 /\ np = 0 THEN d2 ELSE 0)]]]

Bad(G, what) == [G EXCEPT !.bad = Append(@, what)]

\* first offer of an item and of the unit of work it belongs to (a pallet for a splitter's items)
UnitOf(G, x) == IF G.it[x].pl[1] = "pal" THEN G.it[x].pl[2] ELSE x
\* cnt: the offer commits the item to edge j (index policies); a splitter that offers an item has taken it out of
\* the pallet (pallet.items.pop): from then on the item is held by the splitter itself, not packed any more
MarkOfferedC(G, x, t, n, j, cnt) ==
  LET u  == UnitOf(G, x)
      G0 == IF n > 0 /\ G.it[x].pl[1] = "pal" /\ Node(n).type = "splitter" /\ G.it[G.it[x].pl[2]].pl = <<"node", n>>
            THEN [G EXCEPT !.it[x].pl = <<"node", n>>, !.it[x].unit = FALSE] ELSE G
      G1 == IF G0.it[x].offered < 0
            THEN [G0 EXCEPT !.it[x].offered = t, !.it[x].offE = IF cnt THEN j ELSE 0,
                            !.nd = IF cnt /\ n > 0 THEN [@ EXCEPT ![n].nOff = @ + 1] ELSE @]
            ELSE G0
  IN IF G1.it[u].uoff < 0 THEN [G1 EXCEPT !.it[u].uoff = t] ELSE G1
MarkOfferedE(G, x, t, n, j) == MarkOfferedC(G, x, t, n, j, TRUE)
MarkOffered(G, x, t) == MarkOfferedC(G, x, t, 0, 0, FALSE)

InPos(n, j)  == PosOf(Node(n).ins, j)
OutPos(n, j) == PosOf(Node(n).outs, j)

---------------------------------------------------------------------------
(* The fold *)
FStep(G0, ev) ==
  LET G == Advance(G0, ev.t) IN
  CASE ev.k = "new" ->
         [G EXCEPT !.it = Append(@, NewItem(ev.t, ev.n, ev.pal = 1)), !.nd[ev.n].gen = @ + 1]
    [] ev.k \in {"rp", "rg"} /\ ev.res = "tok" ->
         LET G1 == [G EXCEPT !.tk = Append(@, [kind |-> IF ev.k = "rp" THEN "put" ELSE "get", e |-> ev.e, n |-> ev.n,
                                                pid |-> ev.pid, step |-> ev.step, st |-> "live", role |-> ev.role])]
         IN IF ev.k = "rp" /\ ev.it > 0 /\ ev.it <= Len(G.it) THEN MarkOfferedE(G1, ev.it, ev.t, ev.n, ev.e)
            ELSE IF ev.k = "rp" /\ ev.n > 0 THEN Bad(G1, "space reservation without an item: the harness lost track of the item")
            ELSE G1
    [] ev.k = "canput" /\ ev.it > 0 /\ ev.it <= Len(G.it) ->
         \* a FIRST_AVAILABLE probe loop asks several edges; only an index policy commits to the probed edge
         IF Node(ev.n).policy_out = "FIRST_AVAILABLE" THEN MarkOfferedC(G, ev.it, ev.t, ev.n, 0, FALSE)
         ELSE MarkOfferedE(G, ev.it, ev.t, ev.n, ev.e)
    [] ev.k = "put" /\ ev.res = "ok" ->
         LET x  == ev.it
             G1 == [G EXCEPT !.tk = IF ev.tok > 0 THEN [@ EXCEPT ![ev.tok].st = "used"] ELSE @,
                             !.ed[ev.e].ins = Append(@, x),
                             !.it[x].pl = <<"edge", ev.e>>, !.it[x].since = ev.t, !.it[x].unit = FALSE,
                             !.it[x].due = -1, !.it[x].offered = -1, !.it[x].offE = 0, !.it[x].crStamp = IF @ < 0 THEN ev.t ELSE @,
                             !.nd[ev.n].pushes = Append(@, OutPos(ev.n, ev.e)),
                             !.nd[ev.n].exp = @ \ {x}]
         IN IF G.it[x].pl = <<"node", ev.n>> /\ G.it[x].unit THEN [G1 EXCEPT !.nd[ev.n].held = @ - 1] ELSE G1
    [] ev.k = "get" /\ ev.res = "item" ->
         LET x  == ev.it
             n  == ev.n
             ty == Node(n).type
             packs == ty = "combiner" /\ InPos(n, ev.e) > 1
             G1 == [G EXCEPT !.tk = IF ev.tok > 0 THEN [@ EXCEPT ![ev.tok].st = "used"] ELSE @,
                             !.ed[ev.e].ins = SelectSeq(@, LAMBDA y : y # x),
                             !.it[x].since = ev.t, !.it[x].from = InPos(n, ev.e),
                             !.nd[n].pulls = Append(@, InPos(n, ev.e))]
         IN IF ty = "sink"
            THEN [G1 EXCEPT !.it[x].pl = <<"sink", n>>, !.it[x].recvAt = ev.t,
                            !.nd[n].cyc = @ + (ev.t - (IF G.it[x].crStamp >= 0 THEN G.it[x].crStamp ELSE G.it[x].cr))]
            ELSE IF packs
            THEN [G1 EXCEPT !.it[x].pl = <<"pal", G.nd[n].cur>>, !.nd[n].last = ev.t]
            ELSE [G1 EXCEPT !.it = [y \in 1..Len(@) |->
                                      IF y = x THEN [@[y] EXCEPT !.pl = <<"node", n>>, !.unit = TRUE, !.due = -1, !.offered = -1, !.uoff = -1]
                                      \* what a pallet already carries when a combiner takes it was not packed HERE
                                      ELSE IF ty = "combiner" /\ @[y].pl = <<"pal", x>> THEN [@[y] EXCEPT !.from = 0]
                                      ELSE @[y]],
                            !.nd[n].held = @ + 1, !.nd[n].cur = x, !.nd[n].last = ev.t,
                            !.nd[n].exp = IF ty = "splitter"
                                          THEN {y \in 1..Len(G.it) : G.it[y].pl = <<"pal", x>>} \cup {x} ELSE @]
    [] ev.k \in {"cp", "cg"} /\ ev.res = "ok" /\ ev.tok > 0 ->
         [G EXCEPT !.tk[ev.tok].st = "canc"]
    [] ev.k = "draw" /\ ev.what = "pd" ->
         LET n == ev.n x == G.nd[n].cur IN
         IF x > 0 /\ x <= Len(G.it) THEN [G EXCEPT !.it[x].due = ev.t + ev.val, !.it[x].drawAt = ev.t,
                                                   \* a combiner starts the delay when its single worker is free
                                                   !.it[x].exact = (Node(n).type # "combiner" \/ G.nd[n].held = 1),
                                                   !.nd[n].inexact = @ \/ ~(Node(n).type # "combiner" \/ G.nd[n].held = 1),
                                                   !.nd[n].pend = @ + 1]
         ELSE Bad(G, "draw without unit")
    [] ev.k = "sel" ->
         IF ev.side = "in" THEN [G EXCEPT !.nd[ev.n].selIn = Append(@, ev.val)]
         ELSE [G EXCEPT !.nd[ev.n].selOut = Append(@, ev.val)]
    [] ev.k = "ctr" ->
         CASE ev.key = "disc" ->
                IF ev.it > 0 /\ ev.it <= Len(G.it)
                THEN LET x == ev.it G0m == MarkOfferedC(G, ev.it, ev.t, ev.n, 0, FALSE)
                         G1 == [G0m EXCEPT !.it[x].pl = <<"disc", ev.n>>, !.it[x].unit = FALSE,
                                                      !.nd[ev.n].disc = @ + 1, !.nd[ev.n].exp = @ \ {x}]
                     IN IF G.it[x].pl = <<"node", ev.n>> /\ G.it[x].unit THEN [G1 EXCEPT !.nd[ev.n].held = @ - 1] ELSE G1
                ELSE Bad([G EXCEPT !.nd[ev.n].disc = @ + 1], "discard without an item: the harness lost track of the item")
           [] ev.key = "recv" -> [G EXCEPT !.nd[ev.n].recv = @ + 1]
           [] ev.key = "proc" -> [G EXCEPT !.nd[ev.n].proc = @ + 1]
           [] OTHER -> G
    [] OTHER -> G

Init == /\ tid \in 1..Len(Traces)
        /\ l = 0 /\ F = Ledger0 /\ e = NoEvent
Next == /\ l < NEv(tid)
        /\ l' = l + 1 /\ tid' = tid
        /\ e' = Traces[tid].ev[l + 1]
        /\ F' = FStep(F, Traces[tid].ev[l + 1])

---------------------------------------------------------------------------
(* well-formedness of the log (machinery) *)
T_WF == F.bad = <<>>
T_TimeMonotone == [][e'.t >= F.now]_vars      \* also C19: simulated time never decreases

---------------------------------------------------------------------------
(* C03  every item is in exactly one place; counts; quiescence *)
Held(n) == {x \in 1..Len(F.it) : F.it[x].pl = <<"node", n>>}
InEdge(j) == {x \in 1..Len(F.it) : F.it[x].pl = <<"edge", j>>}
Packed == {x \in 1..Len(F.it) : F.it[x].pl[1] = "pal"}

\* a put moves an item its caller holds (a source its new item, a splitter an item of the pallet it holds)
T_C03_PutFromHolder ==
  [][(e'.k = "put" /\ e'.res = "ok") =>
        LET x == e'.it p == F.it[x].pl IN
          /\ x \in 1..Len(F.it)
          /\ \/ p = <<"node", e'.n>> \/ p = <<"src", e'.n>>
             \/ (p[1] = "pal" /\ F.it[p[2]].pl = <<"node", e'.n>> /\ Node(e'.n).type = "splitter")]_vars
T_C03_GetFromEdge ==
  [][(e'.k = "get" /\ e'.res = "item") =>
        (e'.it \in 1..Len(F.it) /\ F.it[e'.it].pl = <<"edge", e'.e>>)]_vars
\* ledger vs the independent observation of every container at the end of each instant
T_C03_EdgeContents ==
  e.k = "eoi" => \A j \in 1..NE : Range(e.edges[j].tr) \cup Range(e.edges[j].rd) = InEdge(j)
                                /\ Len(e.edges[j].tr) + Len(e.edges[j].rd) = Cardinality(InEdge(j))
T_C03_PalletContents ==
  e.k = "eoi" => \A x \in Packed : \E i \in 1..Len(e.pal) : e.pal[i][1] = F.it[x].pl[2] /\ x \in Range(e.pal[i][2])
T_C03_NodeRefs ==
  e.k = "eoi" => \A n \in 1..NN : Range(e.nodes[n].refs) \subseteq (Held(n) \cup {x \in Packed : F.it[x].pl[2] \in Held(n)})
\* generated = in edges + in nodes + packed + discarded + received, right side from counters and container sizes
T_C03_Counts ==
  e.k = "eoi" =>
     LET gen  == Sum([n \in 1..NN |-> e.nodes[n].gen], 1..NN)
         disc == Sum([n \in 1..NN |-> e.nodes[n].disc], 1..NN)
         recv == Sum([n \in 1..NN |-> e.nodes[n].recv], 1..NN)
         inE  == Sum([j \in 1..NE |-> Len(e.edges[j].tr) + Len(e.edges[j].rd)], 1..NE)
         pk   == Sum([i \in 1..Len(e.pal) |-> Len(e.pal[i][2])], 1..Len(e.pal))
         heldN == Cardinality(UNION {Held(n) : n \in 1..NN}) + Cardinality({x \in 1..Len(F.it) : F.it[x].pl[1] = "src"})
     IN /\ gen = Len(F.it)
        /\ gen = inE + heldN + pk + disc + recv
T_C03_Quiescent ==
  (e.k = "final" /\ Traces[tid].quiescent) =>
     \A x \in 1..Len(F.it) : F.it[x].pl[1] \in {"sink", "disc"} \/
          (F.it[x].pl[1] = "pal" /\ F.it[F.it[x].pl[2]].pl[1] \in {"sink", "disc"})

---------------------------------------------------------------------------
(* C08  machine capacity; exact processing delay; drawn once *)
IsWorkNode(n) == Node(n).type \in {"machine", "splitter", "combiner"}
\* (a splitter has one worker; a combiner may gather the next pallet while the previous one waits to be pushed)
T_C08_Cap == \A n \in 1..NN : /\ Node(n).type = "machine" => F.nd[n].held <= Node(n).wc
                              /\ Node(n).type = "splitter" => F.nd[n].held <= 1
\* first offer (reserve_put / can_put probe / discard) of a unit of work exactly at pull/draw + delay
OfferedUnit(G, x) == IF G.it[x].pl[1] = "pal" THEN G.it[x].pl[2] ELSE x
T_C08_Offer ==
  [][(((e'.k = "rp" /\ e'.res = "tok") \/ e'.k = "canput" \/ (e'.k = "ctr" /\ e'.key = "disc"))
       /\ e'.it > 0 /\ e'.it <= Len(F.it) /\ e'.n > 0 /\ IsWorkNode(e'.n)) =>
          LET u == OfferedUnit(F, e'.it) IN
            (F.it[u].pl = <<"node", e'.n>> /\ F.it[u].unit /\ F.it[u].uoff < 0) =>
               (F.it[u].due >= 0 /\ (IF F.it[u].exact THEN e'.t = F.it[u].due ELSE e'.t >= F.it[u].due))]_vars
\* the unit's own first offer time is recorded on the unit as well
T_C08_DrawOnce ==
  [][(e'.k = "draw" /\ e'.what = "pd") =>
        LET x == F.nd[e'.n].cur IN x > 0 /\ F.it[x].pl = <<"node", e'.n>> /\ F.it[x].due < 0]_vars
T_C08_DrawnAtPull ==
  e.k = "eoi" => \A n \in 1..NN : Node(n).type \in {"machine", "splitter"} =>
                    \A x \in UnitsOf(F, n) : F.it[x].due >= 0 /\ F.it[x].drawAt = F.it[x].since
\* never late without trying: a finished unit has been offered by the end of the instant it was due
T_C08_OfferedWhenDue ==
  e.k = "eoi" => \A n \in 1..NN : IsWorkNode(n) =>
      \A x \in UnitsOf(F, n) : (F.it[x].due >= 0 /\ F.now >= F.it[x].due) =>
          (F.it[x].uoff >= 0 \/ Node(n).type = "combiner")

\* an item leaves later than due only while every out-edge its policy permits is unable to accept it.  The only party
\* that reserves space on an out-edge is the node itself and a reservation granted to it is used in the instant it is
\* granted, so at the end of an instant "unable to accept" means: full of ITEMS (a reservation that the node left
\* behind on the edge does not make the edge unable to accept)
LiveTokF == {t \in 1..Len(F.tk) : F.tk[t].st = "live"}
T_C08_HeldOnlyIfFull ==
  e.k = "eoi" => \A n \in 1..NN : (IsWorkNode(n) /\ Node(n).blocking /\ Node(n).type # "combiner") =>
      LET fin  == {x \in UnitsOf(F, n) : F.it[x].due >= 0 /\ F.now >= F.it[x].due}
          outs == Node(n).outs
          mine == {F.tk[t].e : t \in {u \in LiveTokF : F.tk[u].n = n /\ F.tk[u].kind = "put"}}
          permitted == IF Node(n).policy_out = "FIRST_AVAILABLE" THEN {outs[i] : i \in 1..Len(outs)} ELSE mine
      IN fin # {} => \A j \in permitted :
            Edge(j).type \in {"buffer", "fleet"} => Len(e.edges[j].tr) + Len(e.edges[j].rd) >= Edge(j).cap

---------------------------------------------------------------------------
(* C09  blocking never discards, non-blocking never waits *)
T_C09_BlockingNoDiscard == \A n \in 1..NN : Node(n).blocking => F.nd[n].disc = 0
T_C09_NonBlockingNow ==
  e.k = "eoi" => \A n \in 1..NN : (~Node(n).blocking /\ Node(n).type # "sink") =>
      /\ \A x \in UnitsOf(F, n) : ~(F.it[x].due >= 0 /\ F.now >= F.it[x].due) \/ Node(n).type = "combiner"
      /\ (Node(n).type = "source" => ~SrcHolds(F, n))
LivePutOn(G, j) == Cardinality({t \in 1..Len(G.tk) : G.tk[t].st = "live" /\ G.tk[t].kind = "put" /\ G.tk[t].e = j})
DefinitelyRoom(G, j) == Len(G.ed[j].ins) + LivePutOn(G, j) < Edge(j).cap
\* a drop is justified only if no permitted out-edge definitely had free, unreserved room
T_C09_Decision ==
  [][(e'.k = "ctr" /\ e'.key = "disc") =>
        LET n == e'.n outs == Node(n).outs pol == Node(n).policy_out IN
          IF pol = "FIRST_AVAILABLE" THEN \A i \in 1..Len(outs) : ~DefinitelyRoom(F, outs[i])
          ELSE TRUE]_vars
T_C09_DiscardByOne == [][(e'.k = "ctr") => e'.val = e'.old + 1]_vars

---------------------------------------------------------------------------
(* C10  nothing stranded at the end of an instant; no orphan reservations *)
LiveTok == {t \in 1..Len(F.tk) : F.tk[t].st = "live"}
TrigAtEoi(t) == \E i \in 1..Len(e.toks) : e.toks[i][1] = t /\ e.toks[i][2] = 1
AliveAtEoi(t) == \E i \in 1..Len(e.toks) : e.toks[i][1] = t /\ e.toks[i][3] = 1
\* a granted reservation is used in the instant it is granted (a splitter may hold its pallet token
\* while its single worker is busy)
T_C10_GrantedUsed ==
  e.k = "eoi" => \A t \in LiveTok : TrigAtEoi(t) =>
      (Node(F.tk[t].n).type = "splitter" /\ F.tk[t].kind = "get" /\ F.nd[F.tk[t].n].held > 0)
\* no live token of a process that has moved on to a newer batch or has ended
T_C10_NoOrphan ==
  e.k = "eoi" => \A t \in LiveTok :
      /\ AliveAtEoi(t)
      /\ ~\E u \in 1..Len(F.tk) : F.tk[u].pid = F.tk[t].pid /\ F.tk[u].step > F.tk[t].step
\* committing to one edge withdraws the requests on the others in the same instant
T_C10_ChooseOne ==
  e.k = "eoi" => \A t \in LiveTok :
      ~(\E u \in 1..Len(F.tk) : F.tk[u].pid = F.tk[t].pid /\ F.tk[u].step = F.tk[t].step /\ F.tk[u].st = "used"
           /\ ~(Node(F.tk[t].n).type = "combiner" /\ F.tk[t].kind = "get"))
\* a node with a free worker leaves no available, unreserved item on an in-edge it may take from
AvailUnres(j) == Len(e.edges[j].rd) - Cardinality({t \in LiveTok : F.tk[t].kind = "get" /\ F.tk[t].e = j /\ TrigAtEoi(t)})
SetupOver(n) == F.now >= Node(n).setup
T_C10_TakeInput ==
  e.k = "eoi" => \A n \in 1..NN :
      LET ty == Node(n).type ins == Node(n).ins
          free == CASE ty = "machine" -> F.nd[n].held < Node(n).wc
                    [] ty = "sink" -> TRUE
                    [] OTHER -> FALSE
      IN (free /\ SetupOver(n) /\ ty \in {"machine", "sink"}) =>
           IF ty = "sink" \/ Node(n).policy_in = "FIRST_AVAILABLE"
           THEN \A i \in 1..Len(ins) : AvailUnres(ins[i]) <= 0
           ELSE \A t \in LiveTok : (F.tk[t].n = n /\ F.tk[t].kind = "get") => AvailUnres(F.tk[t].e) <= 0
GrantedPutOn(j) == Cardinality({t \in LiveTok : F.tk[t].kind = "put" /\ F.tk[t].e = j /\ TrigAtEoi(t)})
\* a finished item is held only while every permitted out-edge has no room
T_C10_PushOutput ==
  e.k = "eoi" => \A n \in 1..NN : (IsWorkNode(n) \/ Node(n).type = "source") =>
      LET fin == {x \in UnitsOf(F, n) : F.it[x].due >= 0 /\ F.now >= F.it[x].due}
          holding == IF Node(n).type = "source" THEN SrcHolds(F, n) ELSE fin # {}
          outs == Node(n).outs
      IN (holding /\ Node(n).policy_out = "FIRST_AVAILABLE" /\ Node(n).type # "combiner") =>
            \A i \in 1..Len(outs) : ~(Len(e.edges[outs[i]].tr) + Len(e.edges[outs[i]].rd) + GrantedPutOn(outs[i]) < Edge(outs[i]).cap
                                      /\ Edge(outs[i]).type \in {"buffer", "fleet"})

---------------------------------------------------------------------------
(* C15  edge-selection policies *)
RR(k, n) == (k - 1) % n      \* k-th item (k = 1, 2, ...) uses edge (k-1) mod n, 0-based
T_C15_FirstAvail ==
  [][((e'.k = "put" \/ e'.k = "get") /\ e'.res \in {"ok", "item"} /\ Len(e'.batch) > 1) =>
        \A i \in 1..Len(e'.batch) : (e'.batch[i][3] = e'.tok) =>
            \* the used token is triggered and no token before it in edge order is triggered -- except tokens
            \* of the same batch that were USED before (a combiner consumes its batch one by one)
            (e'.batch[i][2] = 1 /\ \A j \in 1..(i-1) : ~(e'.batch[j][2] = 1 /\ F.tk[e'.batch[j][3]].st # "used"))]_vars
T_C15_InPolicy ==
  [][(e'.k = "get" /\ e'.res = "item" /\ Node(e'.n).type \in {"machine", "splitter"}) =>
        LET n == e'.n pol == Node(n).policy_in k == Len(F.nd[n].pulls) + 1 pos == InPos(n, e'.e) IN
          CASE pol = "ROUND_ROBIN" -> pos - 1 = RR(k, Len(Node(n).ins))
            [] pol = "FIRST_AVAILABLE" -> TRUE
            [] pol = "RANDOM" -> pos >= 1
            [] pol = "SCRIPT" -> Len(F.nd[n].selIn) = k /\ pos - 1 = F.nd[n].selIn[k]
            [] OTHER -> pos - 1 = Node(n).const_in]_vars
\* judged at the FIRST offer of every routed item (reserve_put, or the can_put probe of a non-blocking node):
\* the k-th routed item of the node goes to the edge its policy names
T_C15_OutPolicy ==
  [][(((e'.k = "rp" /\ e'.res = "tok") \/ e'.k = "canput") /\ e'.it > 0 /\ e'.it <= Len(F.it) /\ e'.n > 0
        /\ Node(e'.n).type # "sink" /\ F.it[e'.it].offered < 0) =>
        LET n == e'.n pol == Node(n).policy_out pos == OutPos(n, e'.e) k == F.nd[n].nOff + 1 IN
          CASE pol = "ROUND_ROBIN" -> pos - 1 = RR(k, Len(Node(n).outs))
            [] pol = "FIRST_AVAILABLE" -> TRUE
            [] pol = "RANDOM" -> pos >= 1
            [] pol = "SCRIPT" -> Len(F.nd[n].selOut) = k /\ pos - 1 = F.nd[n].selOut[k]
            [] OTHER -> pos - 1 = Node(n).const_out]_vars
\* ... and is then put on that very edge
T_C15_PutWhereOffered ==
  [][(e'.k = "put" /\ e'.res = "ok" /\ Node(e'.n).policy_out # "FIRST_AVAILABLE" /\ Node(e'.n).type # "sink") =>
        F.it[e'.it].offE = e'.e]_vars
\* the recorded selection history equals the routing that happened
T_C15_Recorded ==
  e.k = "final" => \A n \in 1..NN :
      /\ (Node(n).type \in {"machine", "splitter"}) =>
             (e.nodes[n].sel_in = [i \in 1..Len(F.nd[n].pulls) |-> F.nd[n].pulls[i] - 1]
              \* (an index policy records at consultation, a splitter at commitment: both may be one ahead of the pulls)
              \/ (Len(e.nodes[n].sel_in) = Len(F.nd[n].pulls) + 1 /\ (Node(n).policy_in # "FIRST_AVAILABLE" \/ Node(n).type = "splitter")
                  /\ \A i \in 1..Len(F.nd[n].pulls) : e.nodes[n].sel_in[i] = F.nd[n].pulls[i] - 1))
      /\ (Node(n).type \in {"machine", "splitter", "combiner"} /\ Node(n).policy_out = "FIRST_AVAILABLE" /\ Node(n).blocking) =>
             (e.nodes[n].sel_out = [i \in 1..Len(F.nd[n].pushes) |-> F.nd[n].pushes[i] - 1]
              \/ Len(e.nodes[n].sel_out) = Len(F.nd[n].pushes) + 1)

---------------------------------------------------------------------------
(* C16  combiner recipe; splitter emits every content once, then the pallet *)
T_C16_Recipe ==
  [][(e'.k = "put" /\ e'.res = "ok" /\ Node(e'.n).type = "combiner") =>
        LET n == e'.n q == e'.it rec == Node(n).recipe IN
          /\ F.it[q].pal /\ F.it[q].from = 1
          /\ \A i \in 2..Len(Node(n).ins) :
                Cardinality({x \in Range(e'.pal) : F.it[x].from = i /\ F.it[x].pl = <<"pal", q>>}) = rec[i]
          /\ \A x \in Range(e'.pal) : F.it[x].pl = <<"pal", q>> /\ (F.it[x].from >= 2 \/ F.it[x].from = 0)   \* 0: carried in
          /\ Len(e'.pal) = Cardinality(Range(e'.pal))
          /\ Range(e'.pal) = {x \in 1..Len(F.it) : F.it[x].pl = <<"pal", q>>}]_vars
T_C16_SplitterEmits ==
  [][(e'.k = "put" /\ e'.res = "ok" /\ Node(e'.n).type = "splitter") =>
        LET n == e'.n x == e'.it IN
          /\ x \in F.nd[n].exp
          /\ (F.it[x].pl = <<"node", n>> /\ F.it[x].unit) => F.nd[n].exp = {x}]_vars     \* the pallet itself comes last
T_C16_SplitterDone ==
  [][(e'.k = "get" /\ e'.res = "item" /\ Node(e'.n).type = "splitter") => F.nd[e'.n].exp = {}]_vars

---------------------------------------------------------------------------
(* C17  state-time accounting after finalisation at T *)
TT == Cfg.T
\* the environment's initial_time (ticks).  Event times are recorded relative to it.  With T0 # 0 the statement's "T" can
\* be read as the clock value at finalisation (T0 + TT) or as the elapsed time (TT); the library uses one for some totals and
\* the other for others, so either is accepted per total, and the time before the environment existed is not compared with
\* any activity (T_C17_Truth only for T0 = 0).  For T0 = 0 (every run but the "shifted" family) nothing changes.
T0 == Cfg.T0
TAbs == TT + T0
IsT(x) == x = TT \/ x = TAbs
StateSum(n) == LET s == e.nodes[n].states IN Sum([k \in DOMAIN s |-> s[k]], DOMAIN s)
GroupA(n) == LET s == e.nodes[n].states IN s["SETUP_STATE"] + s["IDLE_STATE"] + s["ATLEAST_ONE_PROCESSING_STATE"] + s["ALL_ACTIVE_BLOCKED_STATE"]
GroupB(n) == LET s == e.nodes[n].states IN s["SETUP_STATE"] + s["IDLE_STATE"] + s["ALL_ACTIVE_PROCESSING_STATE"] + s["ATLEAST_ONE_BLOCKED_STATE"]
\* a work node takes nothing from an in-edge before its set-up period (node_setup_time after it was started) is over
T_C08_AfterSetup ==
  (e.k = "get" /\ e.res = "item" /\ e.n > 0) =>
     (Node(e.n).type \in {"machine", "splitter", "combiner"} => e.t >= Node(e.n).setup)
T_C17_NonNeg == e.k = "final" => \A n \in 1..NN : \A k \in DOMAIN e.nodes[n].states : e.nodes[n].states[k] >= 0
T_C17_SumT ==
  e.k = "final" => \A n \in 1..NN :
     IF Node(n).type = "machine"
     THEN /\ IsT(GroupA(n)) /\ IsT(GroupB(n))
          /\ IsT(Sum([i \in 1..Len(e.nodes[n].occ) |-> e.nodes[n].occ[i]], 1..Len(e.nodes[n].occ)))
     ELSE IsT(StateSum(n))
T_C17_Setup ==
  e.k = "final" => \A n \in 1..NN : ("SETUP_STATE" \in DOMAIN e.nodes[n].states /\ TT >= Node(n).setup) =>
                                      e.nodes[n].states["SETUP_STATE"] = Node(n).setup
\* finalised during the set-up period (or exactly at its end: the events of instant T are not processed): everything so far
\* was set-up time
T_C17_SetupPartial ==
  (e.k = "final" /\ T0 = 0) => \A n \in 1..NN : ("SETUP_STATE" \in DOMAIN e.nodes[n].states /\ TT <= Node(n).setup) =>
                                      e.nodes[n].states["SETUP_STATE"] = TT
\* finalisation itself must work at every end time (an exception out of update_final_state_time leaves no totals at all)
T_C17_Finalises ==
  e.k = "final" => \A n \in 1..NN : e.nodes[n].err = ""
T_C17_Truth ==
  (e.k = "final" /\ T0 = 0) => \A n \in 1..NN : LET s == e.nodes[n].states g == F.nd[n] IN
     CASE Node(n).type = "machine" ->
            /\ s["IDLE_STATE"] = g.tIdle /\ s["ATLEAST_ONE_PROCESSING_STATE"] = g.tAnyP
            /\ s["ALL_ACTIVE_PROCESSING_STATE"] = g.tAllP /\ s["ATLEAST_ONE_BLOCKED_STATE"] = g.tAnyB
            /\ s["ALL_ACTIVE_BLOCKED_STATE"] = g.tAllB
       [] Node(n).type \in {"splitter", "combiner"} ->
            \* (a combiner whose worker was still busy when a pallet was complete starts the delay at an
            \*  instant the log does not show: no exact figure is demanded for it)
            g.inexact \/ (s["PROCESSING_STATE"] = g.tProc /\ s["BLOCKED_STATE"] = g.tBlk /\ s["IDLE_STATE"] = g.tIdle)
       [] Node(n).type = "source" ->
            /\ s["BLOCKED_STATE"] = g.tBlk /\ s["GENERATING_STATE"] = g.tIdle + g.tProc
       [] OTHER -> TRUE

---------------------------------------------------------------------------
(* C18  counters, time-averaged occupancy, cycle time, timestamps *)
T_C18_Counters ==
  e.k = "final" => \A n \in 1..NN : LET g == F.nd[n] o == e.nodes[n] IN
     /\ o.gen = g.gen /\ o.disc = g.disc /\ o.recv = Cardinality({x \in 1..Len(F.it) : F.it[x].pl = <<"sink", n>>})
     /\ (Node(n).type \in {"machine", "splitter", "combiner"}) => o.proc = Len(g.pushes)
\* ... and at the end of every instant of the run, not only at the horizon (a report may be taken at any time)
T_C18_CountersEOI ==
  e.k = "eoi" => \A n \in 1..NN : LET g == F.nd[n] o == e.nodes[n] IN
     /\ o.gen = g.gen /\ o.disc = g.disc /\ o.recv = Cardinality({x \in 1..Len(F.it) : F.it[x].pl = <<"sink", n>>})
     /\ (Node(n).type \in {"machine", "splitter", "combiner"}) => o.proc = Len(g.pushes)
T_C18_CounterEvents ==
  [][(e'.k = "ctr" /\ e'.key = "gen") => e'.val = F.nd[e'.n].gen]_vars
T_C18_AvgOccupancy ==
  e.k = "final" => \A j \in 1..NE : e.edges[j].avgTS >= 0 =>
      LET d == e.edges[j].avgTS - 1000 * F.ed[j].area IN d <= 1 /\ d >= -1
\* an interim report (event "mid", before the events of its instant) is exact as well
T_C18_AvgOccupancyMid ==
  e.k = "mid" => \A j \in 1..NE : e.edges[j].avgTS >= 0 =>
      LET d == e.edges[j].avgTS - 1000 * F.ed[j].area IN d <= 1 /\ d >= -1
T_C18_CycleTime ==
  e.k = "final" => \A n \in 1..NN : Node(n).type = "sink" => e.nodes[n].cyc = F.nd[n].cyc
T_C18_Monotone ==
  e.k = "final" => \A x \in 1..Len(e.items) : LET i == e.items[x] IN
      /\ (i.cr >= 0 /\ i.en >= 0) => i.cr <= i.en
      /\ (i.cr >= 0 /\ i.ex >= 0) => i.cr <= i.ex
      /\ (F.it[x].recvAt >= 0 /\ i.cr >= 0) => i.cr <= F.it[x].recvAt
      /\ (F.it[x].recvAt >= 0 /\ i.ex >= 0) => i.ex <= F.it[x].recvAt
T_C18_CreationStamp ==
  e.k = "final" => \A x \in 1..Len(e.items) : F.it[x].crStamp >= 0 => e.items[x].cr = F.it[x].crStamp

---------------------------------------------------------------------------
(* C20  a valid model runs to the end; an invalid one is rejected *)
T_C20_NoCrash == Traces[tid].expect = "valid" => Traces[tid].outcome = "ok"
T_C20_FiniteInstant == Traces[tid].expect = "valid" => Traces[tid].maxi <= Traces[tid].bound
T_C20_Rejects == Traces[tid].expect = "invalid" => Traces[tid].outcome \in {"rejected_at_build", "exception"}
=============================================================================
