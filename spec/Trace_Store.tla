--------------------------- MODULE Trace_Store ---------------------------
(***************************************************************************)
(* Leg C for stores: recorded behaviours of the REAL store / edge classes   *)
(* are replayed as TLA+ behaviours and the listed properties are evaluated  *)
(* by TLC in every state and on every step.                                 *)
(*                                                                          *)
(* The behaviour is fully determined by the log: a deterministic LEDGER is  *)
(* folded over the recorded calls (who issued which token, which item was   *)
(* put when, what was returned), the black-box observation of the real      *)
(* object after each event (which live tokens are triggered, which items    *)
(* are offered as ready, can_put / can_get / occupancy, whether the instant *)
(* is over) is taken from the log.  Nothing here mentions a private list of *)
(* the implementation.  The clauses T_Cnn_* are the listed properties over  *)
(* ledger + observation; TLC's "Invariant T_C04_Put is violated" names the  *)
(* property and the clause, the printed state names trace and step.         *)
(*                                                                          *)
(* A batch of traces is one TLC run: one initial state per trace.           *)
(***************************************************************************)
EXTENDS Integers, Sequences, FiniteSets, TLC, Json, IOUtils

Traces == JsonDeserialize(IOEnv.TRACE_FILE)

VARIABLES tid,    \* which trace
          l,      \* events consumed
          L,      \* ledger
          e       \* the event just consumed (with the observation made after it)

vars == <<tid, l, L, e>>

Cfg(t)   == Traces[t].cfg
NEv(t)   == Len(Traces[t].ev)
Range(q) == {q[i] : i \in 1..Len(q)}

NoEvent == [k |-> "init", t |-> 0, op |-> "", p |-> 0, tok |-> 0, it |-> 0, tag |-> 0, d |-> 0, prio |-> 0,
            flt |-> 1, res |-> "", ri |-> 0, trig |-> <<>>, ready |-> <<>>, cp |-> 2, cg |-> 2, occ |-> -1,
            q |-> TRUE, dr |-> -1]

Obs(ev) == [trig |-> Range(ev.trig), ready |-> ev.ready, cp |-> ev.cp, cg |-> ev.cg, occ |-> ev.occ]

Ledger0 == [now |-> 0, toks |-> <<>>, ins |-> <<>>, got |-> {}, nput |-> 0,
            last |-> "",           \* the last call that changed the contents: "put" / "get"
            acts |-> <<0>>,        \* fleet: activation instants of the reference schedule (timer starts at 0)
            caps |-> {},           \* fleet: indices of acts that are capacity-triggered departures
            capNow |-> FALSE]      \* fleet: the held count reached capacity in the current instant

---------------------------------------------------------------------------
(* Ledger helpers *)
Timed      == Cfg(tid).kind \in {"buffer", "fleet", "slotted", "conveyor"}    \* availability = offered as ready
Cap        == Cfg(tid).cap
Tok(g)     == L.toks[g]
Live(g)    == g \in 1..Len(L.toks) /\ L.toks[g].st = "live"
LiveSet    == {g \in 1..Len(L.toks) : L.toks[g].st = "live"}
TrigNow    == Range(e.trig)
GrantedSet(kind) == {g \in LiveSet : L.toks[g].kind = kind /\ g \in TrigNow}
PendingSet(kind) == {g \in LiveSet : L.toks[g].kind = kind /\ g \notin TrigNow}
InsIds     == {L.ins[i].id : i \in 1..Len(L.ins)}
KeyLess(a, b) == Tok(a).prio < Tok(b).prio \/ (Tok(a).prio = Tok(b).prio /\ a < b)
HeadOf(S)  == CHOOSE g \in S : \A h \in S : h = g \/ KeyLess(g, h)

\* reference availability: what the statement of the kind says is retrievable now
Mature(x)  == CASE Cfg(tid).kind = "filter" -> L.now >= x.at + Cfg(tid).trig
                [] Cfg(tid).kind = "buffer" -> L.now >= x.at + x.d
                [] OTHER -> TRUE
ReadySet   == Range(e.ready)
AvailCount == IF Timed THEN Len(e.ready) ELSE Len(L.ins)

FltOk(f, x) == CASE f = 0 -> Mature(x) [] f = 1 -> TRUE [] f = 2 -> x.tag = 1 [] f = 3 -> x.tag = 0

\* fleet reference schedule: activations every `fdelay` after the previous one, or at once when
\* the held count reaches capacity
RECURSIVE Advance(_, _, _)
Advance(acts, upto, delay) ==
  IF acts[Len(acts)] + delay <= upto THEN Advance(Append(acts, acts[Len(acts)] + delay), upto, delay) ELSE acts

---------------------------------------------------------------------------
(* The fold: ledger after consuming event ev *)
SetTok(toks, g, st) == [toks EXCEPT ![g].st = st]

Step(Lg, ev) ==
  LET c   == Cfg(tid)
      L0  == [Lg EXCEPT !.now = ev.t, !.capNow = IF ev.t > Lg.now THEN FALSE ELSE @,
                        !.acts = IF c.kind = "fleet" THEN Advance(@, ev.t, c.fdelay) ELSE @]
      \* record first availability of items offered as ready
      L1  == [L0 EXCEPT !.ins = [i \in 1..Len(@) |->
                   IF @[i].av < 0 /\ @[i].id \in Range(ev.ready) THEN [@[i] EXCEPT !.av = ev.t] ELSE @[i]]]
  IN
  IF ev.k # "c" THEN L1 ELSE
  CASE ev.op \in {"rp", "rg"} /\ ev.res = "tok" ->
         [L1 EXCEPT !.toks = Append(@, [kind |-> IF ev.op = "rp" THEN "put" ELSE "get", owner |-> ev.p,
                                        prio |-> ev.prio, flt |-> ev.flt, st |-> "live"])]
    [] ev.op = "put" /\ ev.res = "ok" ->
         LET ins2 == Append(L1.ins, [id |-> ev.it, tag |-> ev.tag, at |-> ev.t, d |-> ev.d, na |-> Len(L1.acts),
                                     av |-> IF ev.it \in Range(ev.ready) THEN ev.t ELSE -1])
             full == Len(ins2) = c.cap
         IN [L1 EXCEPT !.ins = ins2, !.nput = @ + 1, !.last = "put",
                       !.toks = IF ev.tok \in 1..Len(@) THEN SetTok(@, ev.tok, "used") ELSE @,
                       !.capNow = @ \/ full,
                       \* reaching capacity is an activation of its own, also in an instant that already had one
                       \* (the timer expired and sent a partial batch, then a put fills the fleet: it departs again at once)
                       !.acts = IF c.kind = "fleet" /\ full THEN Append(@, ev.t) ELSE @,
                       !.caps = IF c.kind = "fleet" /\ full THEN @ \cup {Len(L1.acts) + 1} ELSE @]
    [] ev.op = "get" /\ ev.res = "item" ->
         [L1 EXCEPT !.ins = SelectSeq(@, LAMBDA x : x.id # ev.ri), !.got = @ \cup {ev.ri}, !.last = "get",
                    !.toks = IF ev.tok \in 1..Len(@) THEN SetTok(@, ev.tok, "used") ELSE @]
    [] ev.op \in {"cp", "cg"} /\ ev.res = "ok" ->
         [L1 EXCEPT !.toks = IF ev.tok \in 1..Len(@) THEN SetTok(@, ev.tok, "canc") ELSE @]
    [] OTHER -> L1

Init == /\ tid \in 1..Len(Traces)
        /\ l = 0
        /\ L = Ledger0
        /\ e = NoEvent

Next == /\ l < NEv(tid)
        /\ l' = l + 1
        /\ tid' = tid
        /\ e' = Traces[tid].ev[l + 1]
        /\ L' = Step(L, Traces[tid].ev[l + 1])

---------------------------------------------------------------------------
(* Well-formedness of the trace itself (a failure here is a machinery error, not a verdict) *)
T_WF == /\ e.t >= 0
        /\ \A g \in TrigNow : g \in 1..Len(L.toks)
T_TimeMonotone == [][e'.t >= L.now]_vars

---------------------------------------------------------------------------
(* Was the call well-formed according to the ledger BEFORE it?  (evaluated on the step)            *)
WasGranted(g, kind) == g \in 1..Len(L.toks) /\ L.toks[g].st = "live" /\ L.toks[g].kind = kind /\ g \in TrigNow
WasLive(g, kind)    == g \in 1..Len(L.toks) /\ L.toks[g].st = "live" /\ L.toks[g].kind = kind
WFCall(ev) == CASE ev.op = "put" -> WasGranted(ev.tok, "put") /\ L.toks[ev.tok].owner = ev.p
                [] ev.op = "get" -> WasGranted(ev.tok, "get") /\ L.toks[ev.tok].owner = ev.p
                [] ev.op = "cp"  -> WasLive(ev.tok, "put")
                [] ev.op = "cg"  -> WasLive(ev.tok, "get")
                [] OTHER -> TRUE
IsCall(ev, ops) == ev.k = "c" /\ ev.op \in ops

---------------------------------------------------------------------------
(* C01 *)
T_C01_Cap == Len(L.ins) + Cardinality(GrantedSet("put")) <= Cap
T_C01_PutHonoured == [][(IsCall(e', {"put"}) /\ WFCall(e')) =>
                          (e'.res = "ok" /\ Len(L'.ins) = Len(L.ins) + 1 /\ Len(L'.ins) <= Cap)]_vars
T_C01_Occupancy == e.occ >= 0 => e.occ = Len(L.ins)
\* an event of kind "x": an exception escaped from one of the store's / edge's own processes (item movement, delay,
\* dispatch) although every call it accepted was well-formed.  After a put: the put did not "succeed" after all.
T_C01_NoBreakdown == ~(e.k = "x" /\ L.last = "put")

(* C02 *)
T_C02_GetFresh == [][(IsCall(e', {"get"}) /\ e'.res = "item") =>
                        (e'.ri \in InsIds /\ e'.ri \notin L.got)]_vars
T_C02_Backed == Cardinality(GrantedSet("get")) <= AvailCount
T_C02_GetHonoured == [][(IsCall(e', {"get"}) /\ WFCall(e')) => e'.res = "item"]_vars
T_C02_NoInvent == [][(IsCall(e', {"put"}) /\ e'.res # "ok") => Len(L'.ins) = Len(L.ins)]_vars
T_C02_ReadyInside == ReadySet \subseteq InsIds /\ Cardinality(ReadySet) = Len(e.ready)
\* ... otherwise: the items inside are lost with the dead process
T_C02_NoBreakdown == ~(e.k = "x" /\ L.last # "put")

(* C04  at the end of an instant (nothing left that could still serve the request) *)
\* slotted belt: one admission per slot -- a waiting request is servable when there is room, the item that entered last
\* (still in transit) entered at least one slot delay ago, and nobody holds a granted, unused space reservation
SpacedT == Cfg(tid).kind = "slotted" =>
             /\ \A i \in 1..Len(L.ins) : L.ins[i].id \notin ReadySet => L.now >= L.ins[i].at + Cfg(tid).slot
             /\ GrantedSet("put") = {}
T_C04_Put == e.q => ~(PendingSet("put") # {} /\ Len(L.ins) + Cardinality(GrantedSet("put")) < Cap /\ SpacedT)
MatchCount(f) == IF Timed THEN Len(e.ready)
                 ELSE Cardinality({i \in 1..Len(L.ins) : Mature(L.ins[i]) /\ FltOk(f, L.ins[i])})
T_C04_Get == e.q => (PendingSet("get") # {} =>
                 LET h == HeadOf(PendingSet("get"))
                 IN ~(MatchCount(Tok(h).flt) > Cardinality(GrantedSet("get"))))

(* C05  a request is never granted while an older / more urgent one of the same kind keeps waiting *)
T_C05_GrantOrder ==
  [][\A kind \in {"put", "get"} :
        LET trigAfter == Range(e'.trig)
            newly == {g \in 1..Len(L'.toks) : L'.toks[g].kind = kind /\ g \in trigAfter /\ L'.toks[g].st = "live"
                                              /\ ~(g \in 1..Len(L.toks) /\ g \in TrigNow)}
            still == {g \in 1..Len(L.toks) : L.toks[g].kind = kind /\ L'.toks[g].st = "live" /\ g \notin trigAfter}
        IN \A g \in newly : \A w \in still :
              ~(L'.toks[w].prio < L'.toks[g].prio \/ (L'.toks[w].prio = L'.toks[g].prio /\ w < g))]_vars

(* C07 *)
Unchanged(ev) == Obs(ev) = Obs(e)
T_C07_Reject == [][(IsCall(e', {"put", "get", "cp", "cg"}) /\ ~WFCall(e')) =>
                      (e'.res = "RuntimeError" /\ Unchanged(e') /\ L'.ins = L.ins /\ L'.toks = L.toks)]_vars
T_C07_Accept == [][(IsCall(e', {"put", "get", "cp", "cg"}) /\ WFCall(e')) =>
                      e'.res \in {"ok", "item"}]_vars

(* C11  buffer delay; can_put / can_get; occupancy (T_C01_Occupancy) *)
T_C11_NotBeforeInv == Cfg(tid).kind = "buffer" =>
   \A i \in 1..Len(L.ins) : L.ins[i].id \in ReadySet => L.now >= L.ins[i].at + L.ins[i].d
T_C11_NotBeforeGet == [][(Cfg(tid).kind = "buffer" /\ IsCall(e', {"get"}) /\ e'.res = "item") =>
           \A i \in 1..Len(L.ins) : L.ins[i].id = e'.ri => e'.t >= L.ins[i].at + L.ins[i].d]_vars
T_C11_FromThen == (Cfg(tid).kind = "buffer" /\ e.q) =>
   \A i \in 1..Len(L.ins) : L.now >= L.ins[i].at + L.ins[i].d => L.ins[i].id \in ReadySet
T_C11_CanPut == e.cp \in {0, 1} =>
   ((e.cp = 1) <=> (Len(L.ins) + Cardinality(GrantedSet("put")) < Cap /\ PendingSet("put") = {}))
T_C11_CanGet == e.cg \in {0, 1} =>
   ((e.cg = 1) <=> (Len(e.ready) > Cardinality(GrantedSet("get")) /\ PendingSet("get") = {}))
T_C11_DelayOnce == (e.k = "c" /\ e.op = "put" /\ e.res = "ok" /\ e.dr >= 0) => e.dr = 1

(* C12 on the slotted conveyor under ARBITRARY call sequences (the belt engine judges scripted producer / consumer   *)
(* runs): never offered before the full travel time Cap * slot after entry, and offered in the order of entry        *)
T_C12_MinTravelS == Cfg(tid).kind = "slotted" =>
   \A i \in 1..Len(L.ins) : L.ins[i].av >= 0 => L.ins[i].av >= L.ins[i].at + Cap * Cfg(tid).slot
T_C12_OrderS == Cfg(tid).kind = "slotted" =>
   \A i, j \in 1..Len(L.ins) : (i < j /\ L.ins[j].av >= 0) => (L.ins[i].av >= 0 /\ L.ins[i].av <= L.ins[j].av)

(* C14  fleet: availability = first activation at or after loading + round trip *)
Acts == L.acts
ActTimes == {Acts[i] : i \in 1..Len(Acts)}
MinOf(S) == CHOOSE t \in S : \A u \in S : t <= u
\* the put of x itself, or a later put of the same instant, filled the fleet: x leaves in that instant
MustNow(x) == \E i \in L.caps : i > x.na /\ Acts[i] = x.at
T_C14_Avail == Cfg(tid).kind = "fleet" =>
  \A i \in 1..Len(L.ins) : LET x == L.ins[i] rt == 2 * Cfg(tid).transit
                                 ge == {t \in ActTimes : t >= x.at}      \* activations at or after loading
                                 gt == {t \in ActTimes : t > x.at} IN
     IF x.av >= 0
     THEN \* available: it left with the first activation at / after loading
          \* (a load in the very instant of a timer activation may take that trip or the next)
          /\ x.av - rt >= x.at
          /\ ge # {}
          /\ IF MustNow(x) THEN x.av - rt = x.at
             ELSE \/ x.av - rt = MinOf(ge)
                  \/ (MinOf(ge) = x.at /\ gt # {} /\ x.av - rt = MinOf(gt))
     ELSE \* not yet available: not overdue
          ge # {} =>
             IF MustNow(x) THEN L.now < x.at + rt \/ (L.now = x.at + rt /\ ~e.q)
             ELSE \/ L.now < MinOf(ge) + rt
                  \/ (L.now = MinOf(ge) + rt /\ ~e.q)
                  \/ (MinOf(ge) = x.at /\ (gt = {} \/ L.now < MinOf(gt) + rt \/ (L.now = MinOf(gt) + rt /\ ~e.q)))
T_C14_WaitBound == Cfg(tid).kind = "fleet" =>
  \A i \in 1..Len(L.ins) : LET x == L.ins[i] IN
     IF x.av >= 0 THEN x.av - x.at <= Cfg(tid).fdelay + 2 * Cfg(tid).transit
     ELSE (L.now - x.at < Cfg(tid).fdelay + 2 * Cfg(tid).transit)
          \/ (L.now - x.at = Cfg(tid).fdelay + 2 * Cfg(tid).transit /\ ~e.q)
\* "become available to the destination together": when the instant of a delivery is over, no waiting retrieval of the
\* destination is still pending while a delivered item is unreserved (the whole batch was offered, not only its first item)
T_C14_Delivered == Cfg(tid).kind = "fleet" => T_C04_Get
T_C14_Order == Cfg(tid).kind = "fleet" =>
  \A i, j \in 1..Len(e.ready) : i < j => e.ready[i] < e.ready[j]

=============================================================================
