"""C17: a Splitter / Combiner with node_setup_time > 0 never charges its set-up period to SETUP_STATE (the totals add up to
T - setup), and finalising its statistics during the set-up period raises TypeError.  Found by T_C17_Setup / T_C17_SumT /
T_C17_SetupPartial on family setup/* (Trace_Factory.tla).  Exit 0 = correct, 1 = defect present."""
import io, contextlib, sys, simpy
from factorysimpy.nodes.source import Source
from factorysimpy.nodes.splitter import Splitter
from factorysimpy.nodes.sink import Sink
from factorysimpy.edges.buffer import Buffer


def run(T, setup=5.0):
    env = simpy.Environment()
    s = Source(env, "S", flow_item_type="pallet", inter_arrival_time=1.0, blocking=True)
    sp = Splitter(env, "SP", node_setup_time=setup, processing_delay=2.0)
    k = Sink(env, "K")
    b1 = Buffer(env, "B1", capacity=3); b2 = Buffer(env, "B2", capacity=3)
    b1.connect(s, sp); b2.connect(sp, k)
    env.run(until=T)
    sp.update_final_state_time(T)
    return sp.stats["total_time_spent_in_states"]


bad = []
with contextlib.redirect_stdout(io.StringIO()):
    for T in (40.0, 3.0):
        try:
            st = run(T)
        except Exception as ex:
            bad.append("T=%s: finalisation raised %r" % (T, ex)); continue
        if abs(sum(st.values()) - T) > 1e-9 or abs(st["SETUP_STATE"] - min(T, 5.0)) > 1e-9:
            bad.append("T=%s: %r (sum %s)" % (T, st, sum(st.values())))
for b in bad:
    print("DEFECT", b)
sys.exit(1 if bad else 0)
