"""P7: Sink reserves and gets through `edge.inbuiltstore`, which conveyors do not have (they have `.belt`):
a conveyor in front of a sink dies with AttributeError (C20); for buffers and fleets the sink bypasses
Edge.get (edge statistics, fleet_exit_time)."""
import sys, io, contextlib, simpy
from factorysimpy.nodes.source import Source
from factorysimpy.nodes.sink import Sink
from factorysimpy.edges.continuous_conveyor import ConveyorBelt
env = simpy.Environment()
err = None
with contextlib.redirect_stdout(io.StringIO()):
    s = Source(env, "S", inter_arrival_time=2, blocking=True)
    k = Sink(env, "K")
    c = ConveyorBelt(env, "C", conveyor_length=3, speed=1, item_length=1, accumulating=1)
    c.connect(s, k)
    try:
        env.run(until=20)
    except Exception as ex:
        err = ex
print("error:", repr(err), "received:", k.stats["num_item_received"])
ok = err is None and k.stats["num_item_received"] >= 5
print("PASS" if ok else "FAIL")
sys.exit(0 if ok else 1)
