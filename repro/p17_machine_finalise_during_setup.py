"""C17: Machine.update_final_state_time raises TypeError when the end time T lies in (or exactly at the end of) the set-up
period, so no state totals exist for that end time.  Found by T_C17_Finalises / T_C17_SetupPartial on family setup/fan-in
(Trace_Factory.tla).  Exit 0 = correct, 1 = defect present."""
import io, contextlib, sys, simpy
from factorysimpy.nodes.source import Source
from factorysimpy.nodes.machine import Machine
from factorysimpy.nodes.sink import Sink
from factorysimpy.edges.buffer import Buffer

bad = []
with contextlib.redirect_stdout(io.StringIO()):
    for T in (3.0, 5.0, 9.0):
        env = simpy.Environment()
        s = Source(env, "S", inter_arrival_time=1.0, blocking=True)
        m = Machine(env, "M", node_setup_time=5.0, work_capacity=2, processing_delay=2.0)
        k = Sink(env, "K")
        b1 = Buffer(env, "B1", capacity=3); b2 = Buffer(env, "B2", capacity=3)
        b1.connect(s, m); b2.connect(m, k)
        env.run(until=T)
        try:
            m.update_final_state_time(T)
        except Exception as ex:
            bad.append("T=%s: finalisation raised %r" % (T, ex)); continue
        st = m.stats["total_time_spent_in_states"]
        a = st["SETUP_STATE"] + st["IDLE_STATE"] + st["ATLEAST_ONE_PROCESSING_STATE"] + st["ALL_ACTIVE_BLOCKED_STATE"]
        if abs(a - T) > 1e-9 or abs(st["SETUP_STATE"] - min(T, 5.0)) > 1e-9 or abs(sum(m.time_per_work_occupancy) - T) > 1e-9:
            bad.append("T=%s: %r occupancy %r" % (T, st, m.time_per_work_occupancy))
for b in bad:
    print("DEFECT", b)
sys.exit(1 if bad else 0)
