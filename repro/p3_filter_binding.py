"""P3: ReservablePriorityReqFilterStore grants a filtered retrieval when SOME unreserved item matches,
but binds positionally: filter id==2 on [I0,I1,I2] returns I0 (C06: a filtered retrieval only ever
receives an item that satisfies its filter)."""
import sys, io, contextlib, simpy
from factorysimpy.base.reservable_priority_req_filter_store import ReservablePriorityReqFilterStore as S
class It:
    def __init__(s, n): s.id = n
    def __repr__(s): return "I%d" % s.id
env = simpy.Environment(); st = S(env, capacity=4)
with contextlib.redirect_stdout(io.StringIO()):
    for i in range(3):
        t = st.reserve_put(); st.put(t, It(i))
    g = st.reserve_get(filter=lambda x: x.id == 2)
    a = st.get(g)
print("get(filter id==2) ->", a)
ok = a.id == 2
print("PASS" if ok else "FAIL (expected I2)")
sys.exit(0 if ok else 1)
