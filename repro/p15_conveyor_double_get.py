"""P15: continuous ConveyorBelt.get()/put() call `get_events_available.succeed()` / `put_events_available.succeed()`
unconditionally.  The conveyor's behaviour process replaces these events only when it runs next, so a second get
(or put) before that -- e.g. two consumers taking two offered items in one instant -- raises
RuntimeError("... has already been triggered") AFTER the item has been removed from the belt: the caller gets an
exception instead of the item and the item is lost (C02); in a factory the consuming node dies (C20)."""
import sys, io, contextlib, simpy
from factorysimpy.edges.continuous_conveyor import ConveyorBelt
from factorysimpy.helper.item import Item

env = simpy.Environment()
log, got, err = [], [], []
with contextlib.redirect_stdout(io.StringIO()):
    c = ConveyorBelt(env, "C", conveyor_length=4, speed=1, item_length=1, accumulating=0)
    c.src_node = c.dest_node = object()

    def producer():
        for i, at in enumerate([0, 1]):
            yield env.timeout(at - env.now)
            tok = c.reserve_put()
            yield tok
            it = Item("it%d" % (i + 1))
            it.length = 1
            c.put(tok, it)

    def consumer():
        # two standing retrieval reservations (two downstream parties); both items are collected at t=6
        a, b = c.reserve_get(), c.reserve_get()
        yield env.timeout(6)
        log.append(("offered", [x.id for x in c.belt.ready_items], "granted", a.triggered, b.triggered))
        for tok in (a, b):
            try:
                got.append(c.get(tok).id)
            except Exception as ex:       # noqa
                err.append(repr(ex)[:90])
    env.process(producer())
    env.process(consumer())
    try:
        env.run(until=30)
    except Exception as ex:               # noqa
        err.append("run: " + repr(ex)[:90])
inside = [(x[0] if isinstance(x, tuple) else x).id for x in list(c.belt.items) + list(c.belt.ready_items)]
print(log, "got:", got, "still inside:", inside, "errors:", err)
ok = not err and sorted(got + inside) == ["it1", "it2"]
print("PASS" if ok else "FAIL")
sys.exit(0 if ok else 1)
