"""P4: FleetStore hands the trip process the live list self.items and pops from it while iterating:
of a batch of three only I0 and I2 are delivered after the round trip, and an item loaded while the
trip is under way rides along (C14).  A second activation during a trip and an activation with the
capacity event already set and nothing loaded (zero-time loop) are part of the same defect."""
import sys, io, contextlib, simpy
from factorysimpy.base.fleet_store import FleetStore
class It:
    def __init__(s, n): s.id = n
    def __repr__(s): return "I%d" % s.id
env = simpy.Environment(); st = FleetStore(env, capacity=5, delay=2, transit_delay=1)
log = []
def load(ids):
    for i in ids:
        t = st.reserve_put(); st.put(t, It(i))
def drv():
    load([0, 1, 2])                 # t=0: three items; timer departs at t=2, back at t=4
    yield env.timeout(3)
    load([3])                       # t=3: loaded during the trip -> next trip (departs 4, back 6)
    yield env.timeout(1.5)
    log.append((env.now, [repr(x) for x in st.ready_items]))   # t=4.5
    yield env.timeout(2)
    log.append((env.now, [repr(x) for x in st.ready_items]))   # t=6.5
with contextlib.redirect_stdout(io.StringIO()):
    env.process(drv()); env.run(until=10)
print(log)
ok = log == [(4.5, ['I0', 'I1', 'I2']), (6.5, ['I0', 'I1', 'I2', 'I3'])]
print("PASS" if ok else "FAIL (expected [I0,I1,I2] at 4.5 and I3 added by 6.5)")
sys.exit(0 if ok else 1)
