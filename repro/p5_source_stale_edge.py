"""P5: non-blocking Source with FIRST_AVAILABLE never resets `out_edge_to_put`: once an out-edge was found,
a later item is pushed towards that edge even when can_put() is false, so the non-blocking source WAITS
(C09) and discards nothing; if the very first item finds no room the run dies with UnboundLocalError (C20)."""
import sys, io, contextlib, simpy
from factorysimpy.nodes.source import Source
from factorysimpy.nodes.sink import Sink
from factorysimpy.nodes.machine import Machine
from factorysimpy.edges.buffer import Buffer
env = simpy.Environment()
with contextlib.redirect_stdout(io.StringIO()):
    s = Source(env, "S", inter_arrival_time=1, blocking=False, out_edge_selection="FIRST_AVAILABLE")
    m = Machine(env, "M", processing_delay=10, work_capacity=1)
    k = Sink(env, "K")
    b1 = Buffer(env, "B1", capacity=1); b2 = Buffer(env, "B2", capacity=1)
    b1.connect(s, m); b2.connect(m, k)
    env.run(until=30)
print("generated", s.stats["num_item_generated"], "discarded", s.stats["num_item_discarded"], "state", s.state)
ok = s.stats["num_item_generated"] == 29 and s.stats["num_item_discarded"] >= 20
print("PASS" if ok else "FAIL (a non-blocking source must create an item every time unit and drop what does not fit)")
sys.exit(0 if ok else 1)
