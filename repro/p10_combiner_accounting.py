"""P10: Combiner runs its processing delay in behaviour() while worker_thread_list is empty, so the time is
charged to IDLE_STATE (C17); with a single in-edge the progress message dereferences item_in_process=None (C20)."""
import sys, io, contextlib, simpy
from factorysimpy.nodes.source import Source
from factorysimpy.nodes.sink import Sink
from factorysimpy.nodes.combiner import Combiner
from factorysimpy.edges.buffer import Buffer
res = {}
for label, two in (("pallet+item", True), ("pallet only", False)):
    env = simpy.Environment(); err = None
    with contextlib.redirect_stdout(io.StringIO()):
        sp = Source(env, "SP", inter_arrival_time=4, blocking=True, flow_item_type="pallet")
        cb = Combiner(env, "C", target_quantity_of_each_item=[1, 1] if two else [1], processing_delay=3)
        k = Sink(env, "K")
        b0 = Buffer(env, "B0", capacity=2); bo = Buffer(env, "BO", capacity=2)
        b0.connect(sp, cb)
        if two:
            si = Source(env, "SI", inter_arrival_time=1, blocking=True)
            b1 = Buffer(env, "B1", capacity=2); b1.connect(si, cb)
        bo.connect(cb, k)
        try:
            env.run(until=41)
            cb.update_final_state_time(41)
        except Exception as ex:
            err = ex
    st = cb.stats["total_time_spent_in_states"]
    res[label] = (repr(err), st["PROCESSING_STATE"], k.stats["num_item_received"])
    print(label, "error:", repr(err), "PROCESSING:", st["PROCESSING_STATE"], "IDLE:", st["IDLE_STATE"], "received:", k.stats["num_item_received"])
ok = all(r[0] == "None" and r[1] == 3 * r[2] + (0 if True else 0) or (r[0] == "None" and abs(r[1] - 3 * r[2]) <= 3) for r in res.values())
print("PASS" if ok else "FAIL (processing time must be charged to PROCESSING_STATE; a one-edge combiner must run)")
sys.exit(0 if ok else 1)
