"""P1/P2: BufferStore (same text in FleetStore and both BeltStores): cancel of a granted retrieval
re-inserts the item at len(ready)-len(reserved)-1 and the next grant binds ready_items[len(reserved)],
so one item ends up bound to two tokens (C02) and the order is disturbed (C06)."""
import sys, io, contextlib, simpy
from factorysimpy.base.buffer_store import BufferStore
class It:
    def __init__(s, n): s.n = n
    def __repr__(s): return "I%d" % s.n
env = simpy.Environment(); st = BufferStore(env, capacity=4)
with contextlib.redirect_stdout(io.StringIO()):
    for i in range(3):
        t = st.reserve_put(); st.put(t, (It(i), 0))
    env.run(until=1)
    g1 = st.reserve_get(); g2 = st.reserve_get()
    st.reserve_get_cancel(g1)          # releases I0
    g3 = st.reserve_get()
    a = st.get(g2)
    try:
        b = st.get(g3)
    except ValueError as e:
        b = "ValueError: %s" % e
print("get(g2) ->", a, "; get(g3) ->", b)
ok = repr(a) == "I1" and repr(b) == "I0"
print("PASS" if ok else "FAIL (expected I1 then I0)")
sys.exit(0 if ok else 1)
