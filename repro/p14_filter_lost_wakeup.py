"""P14 (found by TLC on spec/Store.tla, kind "filter", clause M_C04_Get): the get queue is served
head-only, once per trigger.  Queue [g1(filter tag==1), g2(any)], item A(tag 0) inside and unreserved.
put B(tag 1) grants g1; g2 becomes the head, A is available and unreserved, but nothing re-triggers:
g2 stays pending although it is servable (C04) until the delayed
re-trigger of the store (trigger_delay later) happens to serve it."""
import sys, io, contextlib, simpy
from factorysimpy.base.reservable_priority_req_filter_store import ReservablePriorityReqFilterStore as S
class It:
    def __init__(s, n, tag): s.id = n; s.tag = tag
env = simpy.Environment(); st = S(env, capacity=4, trigger_delay=1)
with contextlib.redirect_stdout(io.StringIO()):
    t = st.reserve_put(); st.put(t, It(0, 0))
    g1 = st.reserve_get(filter=lambda x: x.tag == 1)
    g2 = st.reserve_get(filter=lambda x: True)
    t = st.reserve_put(); st.put(t, It(1, 1))
    env.run(until=0.5)   # the instant of the put is over
print("g1 granted:", g1.triggered, " g2 granted:", g2.triggered, " unreserved items:", len(st.items) - len(st.reservations_get))
ok = g1.triggered and g2.triggered
print("PASS" if ok else "FAIL (g2 pending while an unreserved matching item exists)")
sys.exit(0 if ok else 1)
