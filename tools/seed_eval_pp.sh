#!/bin/bash
# like seed_eval.sh but without touching /repo: the checks import the patched scratch copy through PYTHONPATH
WT=$1; ID=$2; TIER=$3; shift 3
OUT=/verif/seeded/$ID; mkdir -p $OUT
[ "$WT" = "$OUT" ] || { cp $WT/patch.diff $OUT/patch.diff; cp $WT/demo.py $OUT/demo.py; cp $WT/meta.json $OUT/meta_agent.json 2>/dev/null; }
SCR=/var/tmp/fsv/seed_$ID; rm -rf $SCR; mkdir -p $SCR; cp -r /repo/src /repo/tests $SCR/
( cd $SCR && patch -p1 -s < $OUT/patch.diff ) || { echo "PATCH FAILED"; exit 3; }
T=$(cd $SCR && PYTHONPATH=$SCR/src /venv/bin/python -m pytest -q -p no:cacheprovider tests 2>&1 | tail -1)
D_ORIG=$(cd /repo && /venv/bin/python $OUT/demo.py > /dev/null 2>&1; echo $?)
D_CHG=$(cd $SCR && PYTHONPATH=$SCR/src /venv/bin/python $OUT/demo.py > /dev/null 2>&1; echo $?)
echo "$ID tests: $T | demo original rc=$D_ORIG changed rc=$D_CHG"
export PYTHONPATH=$SCR/src FSV_EVIDENCE=/var/tmp/fsv/evidence_$ID FSV_REPLAYS=/var/tmp/fsv/replays_$ID; mkdir -p $FSV_EVIDENCE $FSV_REPLAYS
RES=""
cd /verif
for p in "$@"; do
  out=$(/venv/bin/python -m fsverif.check $p --tier $TIER 2>&1); rc=$?
  cl=$(echo "$out" | grep '^VIOLATION' | sed 's/.*clause=//' | sort | uniq -c | tr '\n' ' ')
  echo "   $p rc=$rc $cl $(echo "$out" | grep MACHINERY | head -1 | cut -c1-160)"
  RES="$RES $p:$rc"
done
rm -rf $SCR $FSV_EVIDENCE $FSV_REPLAYS
echo "$ID tests=[$T] demo_orig=$D_ORIG demo_changed=$D_CHG checks=[$RES] via=PYTHONPATH" >> /verif/seeded/results.log
