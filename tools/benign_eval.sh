#!/bin/bash
# usage: benign_eval.sh <worktree> <id> : run ALL 20 quick checks on a behaviour-preserving change; every check must exit 0
WT=$1; ID=$2
OUT=/verif/seeded/benign_$ID; mkdir -p $OUT
cp $WT/patch.diff $OUT/patch.diff; cp $WT/equiv.py $OUT/equiv.py 2>/dev/null; cp $WT/meta.json $OUT/meta_agent.json 2>/dev/null
SCR=/var/tmp/fsv/benign_$ID; rm -rf $SCR; mkdir -p $SCR; cp -r /repo/src /repo/tests $SCR/
( cd $SCR && patch -p1 -s < $OUT/patch.diff ) || { echo "PATCH FAILED"; exit 3; }
T=$(cd $SCR && PYTHONPATH=$SCR/src /venv/bin/python -m pytest -q -p no:cacheprovider tests 2>&1 | tail -1)
echo "benign_$ID tests: $T  ($(grep -c '^[+-]' $OUT/patch.diff) changed lines)"
export PYTHONPATH=$SCR/src FSV_EVIDENCE=/var/tmp/fsv/evidence_$ID FSV_REPLAYS=/var/tmp/fsv/replays_$ID; mkdir -p $FSV_EVIDENCE $FSV_REPLAYS
RES=""
cd /verif
for p in C01 C02 C03 C04 C05 C06 C07 C08 C09 C10 C11 C12 C13 C14 C15 C16 C17 C18 C19 C20; do
  out=$(/venv/bin/python -m fsverif.check $p --tier quick 2>&1); rc=$?
  [ $rc -ne 0 ] && echo "   $p rc=$rc $(echo "$out" | grep '^VIOLATION\|MACHINERY' | head -3 | cut -c1-220)"
  RES="$RES $p:$rc"
done
D=$(python3 - <<PY
import json
try:
    e=json.load(open("$FSV_EVIDENCE/C01.json")); print(e["coverage"].get("drift_model_vs_implementation"))
except Exception as ex: print("?")
PY
)
echo "   store drift: $D ; all: $RES"
rm -rf $SCR $FSV_EVIDENCE
echo "benign_$ID tests=[$T] checks=[$RES] store_drift=$D" >> /verif/seeded/benign_results.log
