#!/usr/bin/env python3
"""Write seeded/<id>/meta.json for the ids given on the command line from the sub-agent's meta_agent.json and the last
line of seeded/results.log for that id."""
import json, os, re, sys
root = os.path.join(os.path.dirname(os.path.dirname(os.path.abspath(__file__))), "seeded")
last = {}
for line in open(os.path.join(root, "results.log")):
    last[line.split()[0]] = line.strip()
for sid in sys.argv[1:]:
    d = os.path.join(root, sid)
    ag = {}
    p = os.path.join(d, "meta_agent.json")
    if os.path.exists(p):
        try:
            ag = json.load(open(p))
        except Exception:
            ag = {}
    line = last.get(sid, "")
    m = re.search(r"tests=\[(.*?)\] demo_orig=(\d+) demo_changed=(\d+) checks=\[(.*?)\]", line)
    checks = {}
    if m:
        for tok in m.group(4).split():
            k, v = tok.split(":")
            checks[k] = {"1": "VIOLATION", "0": "held", "2": "machinery error"}.get(v, v)
    meta = {"id": sid, "property": sid.split("_")[1], "summary": ag.get("summary", ""), "needs": ag.get("needs", ""),
            "files": ag.get("files", []),
            "source": "independent sub-agent working in a scratch worktree, given only the property text (+ a one-line steer towards a component)",
            "confirmed": {"repo_tests_with_change": m.group(1) if m else "", "demo_on_original_exit": int(m.group(2)) if m else None,
                          "demo_on_changed_exit": int(m.group(3)) if m else None,
                          "how": "tools/seed_eval_pp.sh (patched scratch copy first on PYTHONPATH; /repo untouched)"},
            "checks_quick_final": checks}
    note = os.environ.get("NOTE_" + sid.split("_")[0])
    if note:
        meta["note"] = note
    json.dump(meta, open(os.path.join(d, "meta.json"), "w"), indent=1)
    print(sid, checks)
