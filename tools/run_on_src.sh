#!/bin/bash
# usage: run_on_src.sh <src-dir-with-factorysimpy> <tier> C01 C02 ...   (self-test on a mutated copy; evidence goes to scratch)
SRC=$1; TIER=$2; shift 2
export PYTHONPATH=$SRC FSV_EVIDENCE=/var/tmp/fsv/evidence FSV_REPLAYS=/var/tmp/fsv/replays
mkdir -p $FSV_EVIDENCE $FSV_REPLAYS
cd /verif
for p in "$@"; do
  out=$(/venv/bin/python -m fsverif.check $p --tier $TIER 2>&1); rc=$?
  echo "$p rc=$rc $(echo "$out" | grep -c '^VIOLATION') violations; $(echo "$out" | grep '^VIOLATION' | head -2 | sed 's/replay=[^ ]*//' | tr '\n' ' ') $(echo "$out" | grep 'MACHINERY' | head -2 | cut -c1-200)"
done
