#!/usr/bin/env python3
"""False-alarm hunt on the current tree: build every engine's corpus for a given seed and list EVERY violated clause
(known findings included).   usage: /venv/bin/python tools/all_clauses.py <seed> [tier]"""
import os, sys, json
sys.path.insert(0, os.path.dirname(os.path.dirname(os.path.abspath(__file__))))
os.environ.setdefault("FACTORYSIMPY_VERIF", "1")
from collections import Counter
from fsverif import common, store_engine, factory_engine, belt_check, bind_engine, determinism_check

seed = int(sys.argv[1])
tier = sys.argv[2] if len(sys.argv) > 2 else "quick"
d, st = store_engine.corpus(tier, seed)
lc = store_engine.leg_c(d)
c = Counter()
for f, r in lc.items():
    if not r["tlc"]["completed"] or r["tlc"]["errors"]:
        print("store legC incomplete", f, r["tlc"]["errors"][:1])
    for v in r["violations"]:
        c[("store", f, v["clause"])] += 1
b = bind_engine.results(d, tier)
for v in b["violations"]:
    c[("store-bind", v["corpus_file"], v["clause"])] += 1
print("store drift", sum(w["drift"] for w in st["walks"]), b["machinery"][:2])
d, st = factory_engine.corpus(tier, seed)
lc = factory_engine.leg_c(d)
for f, r in lc.items():
    if not r["tlc"]["completed"] or r["tlc"]["errors"]:
        print("factory legC incomplete", f, r["tlc"]["errors"][:1], r.get("tail", "")[-300:])
    trs = None
    for v in r["violations"]:
        if trs is None:
            trs = common.load_json(os.path.join(d, f))
        tr = trs[v["tid"] - 1]
        c[("factory", tr["family"], v["clause"], tr.get("err", "")[:40])] += 1
d, st = belt_check.corpus(tier, seed)
lc = belt_check.leg_c(d)
for f, r in lc.items():
    trs = None
    for v in r["violations"]:
        if trs is None:
            trs = common.load_json(os.path.join(d, f))
        tr = trs[v["tid"] - 1]
        c[("belt", tr["cfg"]["type"], tr["cfg"]["acc"], v["clause"], belt_check.classify(tr, v["l"], v["clause"]))] += 1
o = determinism_check.run("C19", tier, seed)
for v in o["violations"]:
    c[("det", v["clause"], v["config"])] += 1
for k, n in sorted(c.items(), key=repr):
    print(n, k)
print("done seed", seed)
