#!/bin/bash
# usage: seed_eval.sh <worktree-dir> <seed-id> <tier> <props...>
# 1. verify the seeded change: patch applies to a clean scratch copy, suite still passes, demo PASS/FAIL
# 2. apply it to /repo, run the named checks, undo
WT=$1; ID=$2; TIER=$3; shift 3
OUT=/verif/seeded/$ID; mkdir -p $OUT
cp $WT/patch.diff $OUT/patch.diff; cp $WT/demo.py $OUT/demo.py; cp $WT/meta.json $OUT/meta_agent.json 2>/dev/null
SCR=/var/tmp/fsv/seed_$ID; rm -rf $SCR; mkdir -p $SCR; cp -r /repo/src /repo/tests $SCR/; 
( cd $SCR && git init -q . 2>/dev/null; patch -p1 -s < $OUT/patch.diff ) || { echo "PATCH FAILED"; exit 3; }
T=$(cd $SCR && PYTHONPATH=$SCR/src /venv/bin/python -m pytest -q -p no:cacheprovider tests 2>&1 | tail -1)
D_ORIG=$(cd /repo && /venv/bin/python $OUT/demo.py > /dev/null 2>&1; echo $?)
D_CHG=$(cd $SCR && PYTHONPATH=$SCR/src /venv/bin/python $OUT/demo.py > /dev/null 2>&1; echo $?)
echo "$ID tests: $T | demo original rc=$D_ORIG changed rc=$D_CHG"
rm -rf $SCR
cd /repo && git apply $OUT/patch.diff || { echo "git apply failed"; exit 3; }
export FSV_EVIDENCE=/var/tmp/fsv/evidence FSV_REPLAYS=/var/tmp/fsv/replays; mkdir -p $FSV_EVIDENCE $FSV_REPLAYS
RES=""
cd /verif
for p in "$@"; do
  out=$(/venv/bin/python -m fsverif.check $p --tier $TIER 2>&1); rc=$?
  cl=$(echo "$out" | grep '^VIOLATION' | sed 's/.*clause=//' | sort | uniq -c | tr '\n' ' ')
  echo "   $p rc=$rc $cl $(echo "$out" | grep MACHINERY | head -1 | cut -c1-160)"
  RES="$RES $p:$rc"
done
git -C /repo checkout -- . 
echo "$ID tests=[$T] demo_orig=$D_ORIG demo_changed=$D_CHG checks=[$RES]" >> /verif/seeded/results.log
