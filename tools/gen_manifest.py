#!/usr/bin/env python3
"""Regenerate /verif/MANIFEST.json from the table below (single source of truth for the interface)."""
import json, os
VERIF = os.path.dirname(os.path.dirname(os.path.abspath(__file__)))
props = [json.loads(l) for l in open(os.path.join(VERIF, "properties.jsonl"))]
PY = "/venv/bin/python"

CLAIMED = {
 "C01": dict(engine="store", technique="TLA+ spec Store.tla model-checked by TLC (all store kinds); TLC-exported state graph walked on the real classes; recorded traces validated by TLC against Trace_Store.tla (T_C01_*, incl. T_C01_NoBreakdown: no exception out of the store's own processes after a put)",
   text="Design level: TLC proves M_C01_Cap / M_C01_PutHonoured on the complete graph of each store kind for small bounds with unbounded histories (canonical renumbering). Implementation level: every (state, call) pair of the exported graph is executed on the real class with the model state compared after each step, and every recorded event (graph walks + random histories with larger capacities) is judged by TLC with the ledger clauses T_C01_Cap, T_C01_PutHonoured, T_C01_Occupancy, T_C01_NoBreakdown. Kinds: the three time-less stores, buffer (FIFO/LIFO), fleet and the slotted belt store behind the slotted conveyor as model kinds (graph walk); the continuous belt store by timed random histories.",
   ref="5 C01, 3.2, 4.3, 4.4"),
 "C02": dict(engine="store", technique="TLC model checking of Store.tla (M_C02_*); TLC trace validation with hidden-binding inference (Trace_StoreBind.tla) and ledger clauses (Trace_Store.tla)",
   text="Item conservation and distinct backing of granted retrievals: invariants of the model for all kinds; on real traces the ledger clauses T_C02_GetFresh/Backed/GetHonoured/NoInvent/ReadyInside are evaluated at every event and TLC infers a consistent item binding for every granted retrieval (a grant no item can back is a C02 rejection).",
   ref="5 C02, 4.3"),
 "C04": dict(engine="store", technique="TLC model checking of Store.tla (M_C04_*, all kinds incl. the slotted belt store with its admission spacing) + TLC trace validation (T_C04_Put/T_C04_Get at every end of instant) on graph walks and random histories of the real classes",
   text="No lost wake-up: at every state of the model in which nothing is due, and at every recorded end-of-instant of the real object (after every call when no kernel event with a listener is left), no head-of-line request is pending while it could be served.",
   ref="5 C04"),
 "C05": dict(engine="store", technique="TLC model checking (M_C05_Queues, M_C05_HeadOnly; PrioReqStore.tla) + TLC trace validation of the action property T_C05_GrantOrder on real traces (graph walks, random histories with priorities on every store class incl. both belt stores, PriorityReqStore histories)",
   text="Service order by (priority, arrival): queue order and head-only service are invariants of the model; on every recorded step of the real classes no request is granted while an older or more urgent one of the same kind keeps waiting.",
   ref="5 C05"),
 "C06": dict(engine="store", technique="TLC model checking (M_C06_Grant, M_C06_CancelLocal) + TLC trace validation with nondeterministic binding inference (Trace_StoreBind.tla, Allowed sets per discipline) on graph walks, random histories and systematic cancellation scenarios of every store kind",
   text="FIFO/LIFO/filter discipline including cancellation: at design level the bound item of every grant lies in the Allowed set; for real traces TLC searches for a binding of granted retrievals to items that respects Allowed at every grant and explains every returned item; a trace with no such explanation is a violation.",
   ref="5 C06, 4.3"),
 "C07": dict(engine="store", technique="TLC model checking (M_C07: every ill-formed call at every state is a RuntimeError stutter) + the same alphabet executed at every reachable graph state on the real classes + TLC trace validation (T_C07_Reject/Accept)",
   text="Every reachable abstract state x every well- or ill-formed next call is executed on all store classes (graph tour); TLC judges each recorded call: ill-formed => RuntimeError and unchanged observation/ledger, well-formed => accepted.",
   ref="5 C07"),
 "C11": dict(engine="store", technique="TLC model checking (M_C11_*) + TLC trace validation (T_C11_*) on Buffer and Fleet edges driven through the exported graph and random histories",
   text="Buffer delay exactness (not before put+delay, offered from then on), can_put/can_get equal to 'a reservation issued now would be granted', occupancy = in transit + ready, delay drawn once per accepted put; checked on the Buffer/Fleet edge objects at every state of the walk.",
   ref="5 C11"),
 "C14": dict(engine="store", technique="TLC model checking of the fleet kind (M_C14_*) + TLC trace validation against the reference activation schedule (T_C14_Avail, T_C14_WaitBound, T_C14_Delivered, T_C14_Order)",
   text="Fleet batches: every item becomes available exactly one round trip after the first activation (timer period or capacity trigger) at or after its loading, in loading order, never later than delay + round trip; judged on every recorded event of Fleet edges / FleetStore incl. zero transit, loads during trips and in the departure instant.",
   ref="5 C14"),
 "C03": dict(engine="factory", technique="TLC model checking of Factory.tla (all same-instant interleavings; F_C03_OnePlace/Counts/Quiescent) + the real runs compared with the model's outcome sets at every end of instant + TLC trace validation of recorded real factory runs (Trace_Factory.tla, T_C03_*)",
   text="Item conservation across the factory: in the design model every created item has exactly one place in every reachable state of every enumerated configuration under every same-instant ordering; for the implementation, every recorded run of a real factory (systematic families + seeded random configurations incl. fan-in/out, fleets, LIFO, combiner/splitter, conveyors) is folded into a ledger by TLC and compared at every end of instant with the independently observed contents of every edge, pallet and node reference and with the statistics counters.",
   ref="5 C03, 3.5, 4.4"),
 "C08": dict(engine="factory", technique="TLC model checking of Factory.tla (F_C08_Cap) + TLC trace validation (T_C08_Cap, T_C08_Offer, T_C08_DrawOnce, T_C08_DrawnAtPull, T_C08_OfferedWhenDue, T_C08_HeldOnlyIfFull, T_C08_AfterSetup) on recorded real runs with harness-supplied, logged delay callables",
   text="Machine holds at most work_capacity items; every unit of work (machine item, splitter pallet, combiner pallet) is first offered downstream exactly at pull/draw time + the delay drawn once for it; judged on every event of every recorded real run and, for capacity, on every interleaving of the design model.",
   ref="5 C08"),
 "C09": dict(engine="factory", technique="TLC model checking of Factory.tla (F_C09_*) + TLC trace validation (T_C09_BlockingNoDiscard, T_C09_NonBlockingNow, T_C09_Decision, T_C09_DiscardByOne)",
   text="Blocking nodes never discard; non-blocking nodes hold no finished item at the end of the instant it became ready, drop only when no permitted out-edge definitely had free unreserved room, and count each drop once.",
   ref="5 C09"),
 "C10": dict(engine="factory", technique="TLC model checking of Factory.tla over ALL same-instant interleavings (F_C10_*, F_C04_EOI) + TLC trace validation at every recorded end of instant (T_C10_GrantedUsed, T_C10_NoOrphan, T_C10_ChooseOne, T_C10_TakeInput, T_C10_PushOutput)",
   text="Nothing stranded: the schedule quantifier is covered at design level by exploring every ordering of same-instant actions; on the implementation every end-of-instant snapshot (live tokens with trigger flags, edge contents, ledger of held units) is judged: no granted-unused reservation, no orphan token of a process that moved on or ended, no free worker next to an available unreserved item, no finished item next to free room.",
   ref="5 C10, 3.1"),
 "C15": dict(engine="factory", technique="TLC trace validation of recorded real runs (T_C15_FirstAvail on the trigger flags of the whole batch at commit, T_C15_InPolicy / T_C15_OutPolicy / T_C15_PutWhereOffered per routed item, T_C15_Recorded against stats); Factory.tla models FIRST_AVAILABLE / ROUND_ROBIN / constant / scripted (callable) selection and the real runs must agree with it at every end of instant",
   text="ROUND_ROBIN, constant, scripted callable (consulted once per item, logged by the harness) and FIRST_AVAILABLE (lowest-index triggered token of the batch at the instant of commit) are checked per routed item on every recorded run; the recorded selection history is compared with the routing in the ledger.",
   ref="5 C15"),
 "C16": dict(engine="factory", technique="TLC trace validation (T_C16_Recipe, T_C16_SplitterEmits, T_C16_SplitterDone) on recorded runs of real combiner/splitter lines",
   text="Every pallet put by a combiner was taken from in-edge 0 and carries exactly target[i] items taken from in-edge i, nothing else; a splitter puts exactly the contents of the pallet it pulled, each once, then the pallet, before its next pull. Design-level model of combiner/splitter is a growth item; the claim rests on trace validation.",
   ref="5 C16", category="model_checking"),
 "C17": dict(engine="factory", technique="TLC trace validation: ground-truth state-time integrals folded in TLA+ from the call log vs the finalised statistics (T_C17_NonNeg, T_C17_SumT, T_C17_Setup, T_C17_SetupPartial, T_C17_Finalises, T_C17_Truth)",
   text="After finalisation at T (round, non-round, before the first item) the per-state totals are non-negative, partition T (machine: both groups and the occupancy histogram), charge the set-up period, and equal the time the ledger says the node was processing / blocked / idle. Exact on the dyadic time grid.",
   ref="5 C17"),
 "C18": dict(engine="factory", technique="TLC trace validation (T_C18_Counters, T_C18_CounterEvents, T_C18_AvgOccupancy and the interim report T_C18_AvgOccupancyMid with the occupancy integral computed in TLA+, T_C18_CycleTime, T_C18_Monotone, T_C18_CreationStamp)",
   text="Counters equal ledger counts, time-averaged occupancy x T x 1000 equals 1000 x the exact integral of the ledger occupancy within 1 unit, sink cycle time equals the sum of reception minus stamped creation, timestamps are ordered; on every recorded run incl. fleet and conveyor edges.",
   ref="5 C18"),
 "C20": dict(engine="factory", technique="TLC model checking of Factory.tla with an actions-per-instant bound (F_C20_FiniteInstant) + TLC judgement of the outcome of every enumerated valid / invalid configuration run on the real classes (T_C20_NoCrash, T_C20_FiniteInstant, T_C20_Rejects)",
   text="Every enumerated valid configuration runs to T without exception and with a bounded number of kernel events per instant; every configuration of the six listed invalid classes is rejected at construction or by an error during the run. One recorded known finding (conveyor can_put/can_get).",
   ref="5 C20"),
 "C12": dict(engine="belt", technique="TLC model checking of the positional reference model ConveyorRef.tla (R_C12_*; it also proves the closed forms the trace oracle uses) and of the slotted belt store as a kind of Store.tla (M_C12_Travel; its exported graph is walked on the real class; the walk / random / scenario traces are judged with T_C12_MinTravelS, T_C12_OrderS) + TLC trace validation (Trace_Conveyor.tla, T_C12_*) of scripted producer/consumer runs of the real continuous and slotted conveyors",
   text="Order, capacity, entry spacing, minimum travel time and exact travel time when never stalled: invariants / action properties of the reference conveyor for several geometries and both modes; on the implementation every event of every scripted run (regular, bursty, irregular arrivals on the tick grid x immediate / late / mixed service x 3 geometries x both classes x both modes + seeded random scripts) is judged by TLC. One recorded known finding (two grants in one instant).",
   ref="5 C12, 3.4"),
 "C13": dict(engine="belt", technique="TLC model checking of ConveyorRef.tla (R_C13_*: frozen belt, close-up, no overlap, and the closed forms offer = enter + L + stalled time / offer = max(enter + L, take(pred) + Slot)) + TLC trace validation (T_C13_NoAdmit, T_C13_Frozen, T_C13_CloseUp, T_C13_AdmitToCap) of runs of the real conveyors",
   text="Stall behaviour of both modes judged on real runs against closed forms that TLC proves for the positional reference model. The unchanged tree violates several clauses (slotted belt never stalls, continuous belt admits and advances during a stall, followers stop short): these are recorded known findings with precise signatures (clause, class, mode, kind of deviation); any other deviation is reported.",
   ref="5 C13, 3.4"),
 "C19": dict(engine="determinism", category="exploration",
   technique="self-composition trace specification Trace_Determinism.tla evaluated by TLC on pairs of recorded runs (same interpreter twice; fresh interpreter processes with PYTHONHASHSEED 0 / 1 / random / 7777 and different amounts of pre-allocated garbage); time monotonicity is a clause of every trace specification",
   text="Reproducibility is a hyperproperty over two runs: each sampled configuration (every family with RANDOM policies under a fixed seed, conveyors whose process tables are keyed by item id, fleets, combiners, multi-worker machines, plus seeded random configurations) is run six times and TLC compares the complete logs (movements, tokens, counters, snapshots, final statistics) event by event. Hash seeds and heap layouts are sampled, not enumerated, hence exploration level.",
   ref="5 C19"),
}
NOTE = ("trusted: TLC 1.8, CommunityModules Json/IOUtils, SimPy kernel semantics (modelled, not verified), the ledger fold of the "
        "trace specifications, CPython; small-scope bounds for leg A/B as listed in the evidence; integer tick times")

checks = []
for p in props:
    pid = p["id"]
    if pid not in CLAIMED:
        continue
    c = CLAIMED[pid]
    checks.append({
        "property_id": pid,
        "quick_cmd": "cd /verif && %s -m fsverif.check %s --tier quick" % (PY, pid),
        "thorough_cmd": "cd /verif && %s -m fsverif.check %s --tier thorough" % (PY, pid),
        "evidence_file": "/verif/evidence/%s.json" % pid,
        "replay_cmd_template": "cd /verif && %s -m fsverif.check %s --replay {path}" % (PY, pid),
        "engine": c["engine"],
        "level_claimed": {"category": c.get("category", "model_checking"), "text": c["text"], "design_ref": "DESIGN.md section " + c["ref"]},
        "level_note": c.get("note", NOTE),
        "technique": c["technique"],
    })
na = [{"property_id": p["id"], "reason": "check under construction in this round (DESIGN.md section 9.1); not yet claimed"}
      for p in props if p["id"] not in CLAIMED]
m = {
 "version": 1,
 "setup_cmd": "cd /verif && %s -m fsverif.setup" % PY,
 "hooks": {"guard": "FACTORYSIMPY_VERIF", "enable": "the checks set FACTORYSIMPY_VERIF=1 themselves; instrumentation is outside-in (Environment subclass, driver processes), there are no hooks in /repo sources",
           "baseline_off_cmd": "cd /repo && env -u FACTORYSIMPY_VERIF /venv/bin/python -m pytest -ra -q -p no:cacheprovider --timeout=900 --continue-on-collection-errors",
           "source_commits": [], "add_only": True},
 "engines": [
   {"name": "store", "path": "fsverif/store_engine.py", "serves_properties": ["C01","C02","C04","C05","C06","C07","C11","C14"],
    "kind_free_text": "TLA+ StoreCore/Store model checked by TLC; exported graph walked on the real store/edge classes; traces validated by TLC (Trace_Store, Trace_StoreBind)"},
   {"name": "determinism", "path": "fsverif/determinism_check.py", "serves_properties": ["C19"],
    "kind_free_text": "differential runs of the real factories compared by TLC (Trace_Determinism.tla, self-composition)"},
   {"name": "belt", "path": "fsverif/belt_check.py", "serves_properties": ["C12","C13"],
    "kind_free_text": "positional reference conveyor ConveyorRef.tla model checked by TLC; scripted producer/consumer runs of the real conveyor edges validated by TLC (Trace_Conveyor)"},
   {"name": "factory", "path": "fsverif/factory_engine.py", "serves_properties": ["C03","C08","C09","C10","C15","C16","C17","C18","C20"],
    "kind_free_text": "TLA+ Factory model (nodes as per-yield-segment actions over StoreCore edges, all same-instant interleavings) checked by TLC; configurations run on the real classes under a traced kernel; runs validated by TLC (Trace_Factory)"},
 ],
 "checks": checks,
 "not_applicable": na,
 "notes": "See DESIGN.md. fix: commits in /repo and the defects they repair are listed in known_findings.json (fixed entries).",
}
json.dump(m, open(os.path.join(VERIF, "MANIFEST.json"), "w"), indent=1)
print("checks:", len(checks), "not claimed:", len(na))
