"""Leg C: hand recorded traces to TLC (Trace_*.tla) and collect the violated clauses."""
import json, os, re, time, hashlib
from . import tlc

T_STORE = {
    "C01": (["T_C01_Cap", "T_C01_Occupancy", "T_C01_NoBreakdown"], ["T_C01_PutHonoured"]),
    "C02": (["T_C02_Backed", "T_C02_ReadyInside", "T_C02_NoBreakdown"], ["T_C02_GetFresh", "T_C02_GetHonoured", "T_C02_NoInvent"]),
    "C04": (["T_C04_Put", "T_C04_Get"], []),
    "C05": ([], ["T_C05_GrantOrder"]),
    "C07": ([], ["T_C07_Reject", "T_C07_Accept"]),
    "C11": (["T_C11_NotBeforeInv", "T_C11_FromThen", "T_C11_CanPut", "T_C11_CanGet", "T_C11_DelayOnce"],
            ["T_C11_NotBeforeGet"]),
    "C14": (["T_C14_Avail", "T_C14_WaitBound", "T_C14_Delivered", "T_C14_Order"], []),
    # slotted conveyor under arbitrary call sequences (read by the belt engine for C12)
    "C12": (["T_C12_MinTravelS", "T_C12_OrderS"], []),
}
WF_CLAUSES = (["T_WF"], ["T_TimeMonotone"])

_RE_ERR = re.compile(r"Error: (Invariant|Action property) (\S+) is violated")


def parse_violations(out):
    """-> [{clause, tid, l}] from a `-continue` run (one entry per violating trace & clause, first step)."""
    res = []
    lines = out.splitlines()
    i = 0
    while i < len(lines):
        m = _RE_ERR.search(lines[i])
        if m:
            clause = m.group(2)
            # the last printed state of the behaviour that follows carries tid and l
            tid = l = None
            j = i + 1
            while j < len(lines) and not _RE_ERR.search(lines[j]) and not lines[j].startswith("Finished"):
                mm = re.match(r"^/\\ tid = (\d+)", lines[j])
                if mm:
                    tid = int(mm.group(1))
                mm = re.match(r"^/\\ l = (\d+)", lines[j])
                if mm:
                    l = int(mm.group(1))
                j += 1
            res.append({"clause": clause, "tid": tid, "l": l})
            i = j
        else:
            i += 1
    return res


def check_batch(module, traces, invariants, properties, workers=8, timeout=900, workdir=None, tag=""):
    """traces: list of {"cfg":..., "ev":[...]}.  Returns (violations, tlc result)."""
    wd = workdir or os.path.join(tlc.CACHE, "tc", "%s-%d-%s" % (module, os.getpid(), tag))
    os.makedirs(wd, exist_ok=True)
    tf = os.path.join(wd, "traces.json")
    with open(tf, "w") as f:
        json.dump(traces, f)
    cfg = tlc.make_cfg({}, invariants=invariants, properties=properties).replace("CONSTANTS\n", "")
    r = tlc.run_tlc(module, cfg, workers=workers, timeout=timeout, extra=("-continue",),
                    env_extra={"TRACE_FILE": tf}, workdir=os.path.join(wd, "tlc"), jvm=("-Xmx6g", "-Xss16m"))
    viol = parse_violations(r.stdout)
    return viol, r


# ------------------------------------------------------------------------------------------------
# Fast, linear reporting: instead of letting TLC stop at (or, with -continue, print a full behaviour for)
# every violated invariant, a generated wrapper module evaluates the SAME clause definitions on every
# step and accumulates (clause, step) pairs in a history variable; the set is printed once per trace.
_DEF = re.compile(r"^([A-Za-z_][A-Za-z0-9_]*)(\([^)]*\))? ==", re.M)


def _definition_body(text, name):
    m = re.search(r"^%s[ \t]*==" % re.escape(name), text, re.M)
    if not m:
        raise KeyError(name)
    start = m.end()
    rest = text[start:]
    end = len(rest)
    for mm in re.finditer(r"^(?:[A-Za-z_][A-Za-z0-9_]*(?:\([^)]*\))?[ \t]*==|\(\*|\\\*|----|====|RECURSIVE|VARIABLE|CONSTANT)", rest, re.M):
        end = mm.start()
        break
    return rest[:end].strip()


def make_run_module(module, invs, props):
    src = open(os.path.join(tlc.SPEC, module + ".tla")).read()
    parts0, parts1 = [], []
    for i in invs:
        parts0.append('(IF ~(%s) THEN {"%s"} ELSE {})' % (i, i))
        parts1.append("(IF ~((%s)') THEN {\"%s\"} ELSE {})" % (i, i))
    for pname in props:
        body = _definition_body(src, pname)
        j = body.rfind("]_vars")
        assert body.startswith("[][") and j > 0, (pname, body[:40], body[-20:])
        body = body[3:j]
        parts1.append('(IF ~(%s) THEN {"%s"} ELSE {})' % (body, pname))
    f0 = "\n     \\cup ".join(parts0) if parts0 else "{}"
    f1 = "\n     \\cup ".join(parts1) if parts1 else "{}"
    name = "Run_" + module
    text = """---- MODULE %s ----
EXTENDS %s
VARIABLE viol
Fails0 == %s
Fails1 == %s
RInit == Init /\\ viol = {<<c, 0>> : c \\in Fails0}
RNext == Next /\\ viol' = viol \\cup {<<c, l'>> : c \\in (Fails1 \\ {x[1] : x \\in viol})}
Report == (l = Len(Traces[tid].ev) /\\ viol # {}) => \\A v \\in viol : PrintT(<<"V", tid, v[1], v[2]>>)
====
""" % (name, module, f0, f1)
    return name, text


_RE_V = re.compile(r'^<<"V", (\d+), \{(.*)\}>>\s*$')
_RE_PAIR = re.compile(r'<<"([A-Za-z0-9_]+)", (\d+)>>')


def check_batch(module, traces, invariants, properties, workers=8, timeout=900, workdir=None, tag=""):
    """traces: list of {"cfg":..., "ev":[...]}.  Returns (violations [{clause, tid, l}], tlc result)."""
    wd = workdir or os.path.join(tlc.CACHE, "tc", "%s-%d-%s" % (module, os.getpid(), tag))
    os.makedirs(os.path.join(wd, "tlc"), exist_ok=True)
    tf = os.path.join(wd, "traces.json")
    with open(tf, "w") as f:
        json.dump(traces, f)
    name, text = make_run_module(module, list(invariants), list(properties))
    with open(os.path.join(wd, "tlc", name + ".tla"), "w") as f:
        f.write(text)
    cfg = "INIT RInit\nNEXT RNext\nINVARIANT Report\nCHECK_DEADLOCK FALSE\n"
    r = tlc.run_tlc(name, cfg, workers=workers, timeout=timeout, env_extra={"TRACE_FILE": tf},
                    workdir=os.path.join(wd, "tlc"), jvm=("-Xmx6g", "-Xss16m"))
    viol = []
    for tid, c, l in re.findall(r'<<\s*"V",\s*(\d+),\s*"([A-Za-z0-9_]+)",\s*(\d+)\s*>>', r.stdout):
        viol.append({"clause": c, "tid": int(tid), "l": int(l)})
    if not workdir:
        import shutil
        shutil.rmtree(wd, ignore_errors=True)
    return viol, r
