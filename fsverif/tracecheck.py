"""Leg C: hand recorded traces to TLC (Trace_*.tla) and collect the violated clauses."""
import json, os, re, time, hashlib
from . import tlc

T_STORE = {
    "C01": (["T_C01_Cap", "T_C01_Occupancy"], ["T_C01_PutHonoured"]),
    "C02": (["T_C02_Backed", "T_C02_ReadyInside"], ["T_C02_GetFresh", "T_C02_GetHonoured", "T_C02_NoInvent"]),
    "C04": (["T_C04_Put", "T_C04_Get"], []),
    "C05": ([], ["T_C05_GrantOrder"]),
    "C07": ([], ["T_C07_Reject", "T_C07_Accept"]),
    "C11": (["T_C11_NotBeforeInv", "T_C11_FromThen", "T_C11_CanPut", "T_C11_CanGet", "T_C11_DelayOnce"],
            ["T_C11_NotBeforeGet"]),
    "C14": (["T_C14_Avail", "T_C14_WaitBound", "T_C14_Order"], []),
}
WF_CLAUSES = (["T_WF"], ["T_TimeMonotone"])

_RE_ERR = re.compile(r"Error: (Invariant|Action property) (\S+) is violated")


def parse_violations(out):
    """-> [{clause, tid, l}] from a `-continue` run (one entry per violating trace & clause, first step)."""
    res = []
    lines = out.splitlines()
    i = 0
    while i < len(lines):
        m = _RE_ERR.search(lines[i])
        if m:
            clause = m.group(2)
            # the last printed state of the behaviour that follows carries tid and l
            tid = l = None
            j = i + 1
            while j < len(lines) and not _RE_ERR.search(lines[j]) and not lines[j].startswith("Finished"):
                mm = re.match(r"^/\\ tid = (\d+)", lines[j])
                if mm:
                    tid = int(mm.group(1))
                mm = re.match(r"^/\\ l = (\d+)", lines[j])
                if mm:
                    l = int(mm.group(1))
                j += 1
            res.append({"clause": clause, "tid": tid, "l": l})
            i = j
        else:
            i += 1
    return res


def check_batch(module, traces, invariants, properties, workers=8, timeout=900, workdir=None, tag=""):
    """traces: list of {"cfg":..., "ev":[...]}.  Returns (violations, tlc result)."""
    wd = workdir or os.path.join(tlc.CACHE, "tc", "%s-%d-%s" % (module, os.getpid(), tag))
    os.makedirs(wd, exist_ok=True)
    tf = os.path.join(wd, "traces.json")
    with open(tf, "w") as f:
        json.dump(traces, f)
    cfg = tlc.make_cfg({}, invariants=invariants, properties=properties).replace("CONSTANTS\n", "")
    r = tlc.run_tlc(module, cfg, workers=workers, timeout=timeout, extra=("-continue",),
                    env_extra={"TRACE_FILE": tf}, workdir=os.path.join(wd, "tlc"), jvm=("-Xmx6g", "-Xss16m"))
    viol = parse_violations(r.stdout)
    return viol, r
