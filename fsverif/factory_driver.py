"""Factory engine, implementation side: build a factory from a configuration with the REAL node and
edge classes, run it under the traced kernel and record every protocol call, item creation, counter
change, user-callable consultation, end-of-instant snapshot and the finalised statistics.

Instrumentation is outside-in (no change to /repo): class-level wrappers on the edge / store methods
installed by install() when FACTORYSIMPY_VERIF=1, an Environment subclass, instrumented `stats` dicts,
and Item / Pallet subclasses injected into the node modules' namespaces.
Times are recorded in ticks: tick = t * Q, Q a power of two, all configured delays are multiples of 1/Q.
"""
import functools, itertools, json, os, random
from .tracer import TracedEnvironment, quiet, guard_on

_RUN = None          # the run currently being recorded


class Run:
    def __init__(self, cfg):
        self.cfg = cfg
        self.Q = cfg.get("Q", 4)
        self.t0 = cfg.get("t0", 0)          # ticks: the environment's initial_time; recorded times are relative to it
        self.ev = []
        self.items = []          # strong refs, gid = index+1
        self.item_gid = {}
        self.tokens = []         # dicts: ev, gid, edge, kind, node, pid, step, state
        self.tok_by_ev = {}
        self.store_edge = {}     # id(store) -> edge index
        self.edge_idx = {}       # id(edge) -> index
        self.node_idx = {}       # id(node) -> index
        self.proc_info = {}      # id(process) -> (pid, node idx, role)
        self.depth = 0
        self.env = None

    def tick(self, t=None):
        t = self.env.now if t is None else t
        x = t * self.Q - self.t0
        r = int(round(x))
        if abs(x - r) > 1e-9:
            self.offgrid = True
        return r

    def who(self):
        p = self.env.active_process
        if p is None:
            return (0, -1, "none")
        info = self.proc_info.get(id(p))
        if info is None:
            # a process started after registration pass: look it up
            for pr, name, owner, t0 in self.env.procs:
                if pr is p:
                    info = (len(self.proc_info) + 1, self.node_idx.get(id(owner), -1), name)
                    self.proc_info[id(p)] = info
                    break
            else:
                info = (0, -1, "?")
        return info

    def log(self, **kw):
        kw.setdefault("t", self.tick())
        self.ev.append(kw)

    def gid_of(self, item):
        return self.item_gid.get(id(item), 0)

    def frame_item(self):
        """the flow item the active process is working on (local `item` / `item_to_push`)"""
        p = self.env.active_process
        if p is None:
            return 0
        fr = getattr(p._generator, "gi_frame", None)
        if fr is None:
            return 0
        for name in ("item_to_push", "item"):
            it = fr.f_locals.get(name)
            if it is not None and id(it) in self.item_gid:
                return self.item_gid[id(it)]
        # the local was renamed: fall back to the only flow item among the frame's locals, if there is exactly one
        cand = {self.item_gid[id(v)] for v in fr.f_locals.values() if id(v) in self.item_gid}
        if len(cand) == 1:
            return cand.pop()
        return 0


# ---------------------------------------------------------------------------------------- wrappers
_installed = False


def _edge_of(run, obj):
    i = run.edge_idx.get(id(obj))
    if i is None:
        i = run.store_edge.get(id(obj))
    return i


def _wrap(cls, name, kind):
    orig = getattr(cls, name)

    @functools.wraps(orig)
    def w(self, *a, **kw):
        run = _RUN
        if run is None or run.depth > 0:
            return orig(self, *a, **kw)
        e = _edge_of(run, self)
        if e is None:
            return orig(self, *a, **kw)
        run.depth += 1
        res = None
        exc = None
        try:
            res = orig(self, *a, **kw)
            return res
        except BaseException as ex:   # noqa
            exc = ex
            raise
        finally:
            run.depth -= 1
            try:
                _record(run, kind, e, a, res, exc)
            except Exception as ex2:  # never let instrumentation change behaviour
                run.ev.append({"k": "harness_error", "t": run.tick(), "msg": repr(ex2)})
    setattr(cls, name, w)


def _record(run, kind, e, a, res, exc):
    pid, node, role = run.who()
    base = {"k": kind, "e": e, "n": node, "pid": pid, "role": role}
    err = type(exc).__name__ if exc is not None else ""
    if kind in ("rp", "rg"):
        if exc is None:
            t = {"ev": res, "gid": len(run.tokens) + 1, "edge": e, "kind": "put" if kind == "rp" else "get", "node": node,
                 "pid": pid, "step": run.env.nsteps, "state": "live", "proc": run.env.active_process}
            run.tokens.append(t)
            run.tok_by_ev[id(res)] = t
            base.update(tok=t["gid"], step=t["step"], it=run.frame_item() if kind == "rp" else 0,
                        g=1 if res.triggered else 0)
        run.log(res=err or "tok", **base)
    elif kind in ("put", "get"):
        tokev = a[0] if a else None
        t = run.tok_by_ev.get(id(tokev))
        base["tok"] = t["gid"] if t else 0
        # the batch this token belongs to, with the trigger flags at the moment of use (C15 FIRST_AVAILABLE)
        if t is not None:
            batch = [x for x in run.tokens if x["pid"] == t["pid"] and x["step"] == t["step"] and x["kind"] == t["kind"]]
            # in the order of the node's edge list (= ascending edge index here), not in the order the requests were
            # issued: "lowest-index edge able to serve" is about edges, and a node may issue its requests in any order
            batch.sort(key=lambda x: x["edge"])
            base["batch"] = [[x["edge"], 1 if x["ev"].triggered else 0, x["gid"]] for x in batch]
        else:
            base["batch"] = []
        if kind == "put":
            item = a[1] if len(a) > 1 else None
            base["it"] = run.gid_of(item)
            base["pal"] = [run.gid_of(x) for x in getattr(item, "items", [])] if item is not None and hasattr(item, "items") else []
            ok = exc is None and bool(res)
            if ok and t:
                t["state"] = "used"
            run.log(res="ok" if ok else (err or "falsy"), **base)
        else:
            ok = exc is None and res is not None
            base["it"] = run.gid_of(res) if ok else 0
            if ok and t:
                t["state"] = "used"
            run.log(res="item" if ok else (err or "none"), **base)
    elif kind in ("cp", "cg"):
        tokev = a[0] if a else None
        t = run.tok_by_ev.get(id(tokev))
        base["tok"] = t["gid"] if t else 0
        ok = exc is None
        if ok and t:
            t["state"] = "canc"
        run.log(res="ok" if ok else err, **base)
    elif kind in ("canput", "canget"):
        base["it"] = run.frame_item()
        run.log(res=(1 if res else 0) if exc is None else err, **base)


def install():
    """Install the class-level wrappers (once per interpreter, only under the guard)."""
    global _installed
    if _installed or not guard_on():
        return _installed
    from factorysimpy.edges.buffer import Buffer
    from factorysimpy.edges.fleet import Fleet
    from factorysimpy.edges import continuous_conveyor, slotted_conveyor
    from factorysimpy.base.buffer_store import BufferStore
    from factorysimpy.base.fleet_store import FleetStore
    from factorysimpy.base import belt_store, slotted_belt_store
    table = {"reserve_put": "rp", "reserve_get": "rg", "put": "put", "get": "get", "reserve_put_cancel": "cp",
             "reserve_get_cancel": "cg", "can_put": "canput", "can_get": "canget"}
    for cls in (Buffer, Fleet, continuous_conveyor.ConveyorBelt, slotted_conveyor.ConveyorBelt, BufferStore, FleetStore,
                belt_store.BeltStore, slotted_belt_store.BeltStore):
        for name, kind in table.items():
            if name in cls.__dict__:
                _wrap(cls, name, kind)
    from factorysimpy.nodes.node import Node
    orig_get_delay = Node.get_delay

    @functools.wraps(orig_get_delay)
    def get_delay(self, delay):
        val = orig_get_delay(self, delay)
        run = _RUN
        if run is not None:
            n = run.node_idx.get(id(self))
            if n is not None:
                what = "pd" if delay is getattr(self, "processing_delay", object()) else "iat"
                x = val * run.Q
                run.log(k="draw", n=n, what=what, val=int(round(x)) if abs(x - round(x)) < 1e-9 else x)
        return val
    Node.get_delay = get_delay
    _installed = True
    return True


class CounterDict(dict):
    """node.stats with the counter increments logged at the moment they happen"""
    KEYS = {"num_item_generated": "gen", "num_item_discarded": "disc", "num_item_processed": "proc",
            "num_item_received": "recv"}

    def __init__(self, d, run, node):
        super().__init__(d)
        self._run = run
        self._node = node

    def __setitem__(self, k, v):
        old = self.get(k)
        super().__setitem__(k, v)
        if k in self.KEYS and self._run is not None and _RUN is self._run:
            run = self._run
            pid, node, role = run.who()
            run.log(k="ctr", n=self._node, key=self.KEYS[k], val=v, old=old if old is not None else 0,
                    it=run.frame_item(), pid=pid)


# ---------------------------------------------------------------------------------------- building
HUGE = 10 ** 6


def _script(values, after, run, node, what, Q):
    """a callable that returns the scripted values (ticks -> time), then `after`, logging each draw"""
    it = iter(values)

    def draw():
        try:
            v = next(it)
        except StopIteration:
            v = after
        return v / float(Q)
    return draw


def _selector(spec, run, node, side):
    if isinstance(spec, (int, str)):
        return spec
    vals = list(spec["script"])
    cyc = itertools.cycle(vals)

    def sel():
        v = next(cyc)
        run.log(k="sel", n=node, side=side, val=v)
        return v
    return sel


def build(cfg, run):
    import simpy
    from factorysimpy.nodes import source as m_source
    from factorysimpy.nodes.source import Source
    from factorysimpy.nodes.machine import Machine
    from factorysimpy.nodes.sink import Sink
    from factorysimpy.nodes.splitter import Splitter
    from factorysimpy.nodes.combiner import Combiner
    from factorysimpy.edges.buffer import Buffer
    from factorysimpy.edges.fleet import Fleet
    from factorysimpy.edges.continuous_conveyor import ConveyorBelt as CBelt
    from factorysimpy.edges.slotted_conveyor import ConveyorBelt as SBelt
    from factorysimpy.helper.item import Item
    from factorysimpy.helper.pallet import Pallet
    Q = run.Q
    env = TracedEnvironment(initial_time=run.t0 / float(Q))
    run.env = env

    def reg_item(it):
        run.items.append(it)
        run.item_gid[id(it)] = len(run.items)
        pid, node, role = run.who()
        run.log(k="new", it=len(run.items), n=node, pal=1 if hasattr(it, "items") else 0)

    class TItem(Item):
        def __init__(self, id):
            super().__init__(id)
            reg_item(self)

    class TPallet(Pallet):
        def __init__(self, id):
            super().__init__(id)
            reg_item(self)
    TItem.__name__ = "Item"
    TPallet.__name__ = "Pallet"
    m_source.Item = TItem
    m_source.Pallet = TPallet

    nodes = [None] * len(cfg["nodes"])
    edges = [None] * len(cfg["edges"])

    def mk_node(i):
        n = cfg["nodes"][i]
        ty = n["type"]
        ekw = {}
        if cfg.get("wiring") == "ctor":
            # the other documented wiring style (tests/test_machine.py): the node receives its edge lists at construction
            # time, in list order, and the edges are connected afterwards as well
            ins = [edges[j] for j, e in enumerate(cfg["edges"]) if e["dst"] == i]
            outs = [edges[j] for j, e in enumerate(cfg["edges"]) if e["src"] == i]
            if ty != "source":
                ekw["in_edges"] = ins
            if ty != "sink":
                ekw["out_edges"] = outs
        nid = n.get("id", "%s%d" % (ty[0].upper(), i))
        setup = n.get("setup", 0) / float(Q)
        if ty == "source":
            iat = n.get("iat", [1])
            if isinstance(iat, dict) and "const" in iat:
                iatv = iat["const"] / float(Q)
            else:
                iatv = _script(iat, n.get("iat_after", HUGE * Q), run, i, "iat", Q)
            obj = Source(env, nid, **ekw, flow_item_type=n.get("kind", "item"), inter_arrival_time=iatv,
                         blocking=n.get("blocking", True), out_edge_selection=_selector(n.get("policy_out", "FIRST_AVAILABLE"), run, i, "out"))
        elif ty == "machine":
            pd = n.get("pd", [1])
            pdv = pd["const"] / float(Q) if isinstance(pd, dict) else _script(itertools.cycle(pd), 0, run, i, "pd", Q)
            obj = Machine(env, nid, **ekw, node_setup_time=setup, work_capacity=n.get("wc", 1), processing_delay=pdv,
                          blocking=n.get("blocking", True),
                          in_edge_selection=_selector(n.get("policy_in", "FIRST_AVAILABLE"), run, i, "in"),
                          out_edge_selection=_selector(n.get("policy_out", "FIRST_AVAILABLE"), run, i, "out"))
        elif ty == "sink":
            obj = Sink(env, nid, **ekw)
        elif ty == "splitter":
            pd = n.get("pd", [1])
            pdv = pd["const"] / float(Q) if isinstance(pd, dict) else _script(itertools.cycle(pd), 0, run, i, "pd", Q)
            obj = Splitter(env, nid, **ekw, node_setup_time=setup, processing_delay=pdv, blocking=n.get("blocking", True),
                           in_edge_selection=_selector(n.get("policy_in", "FIRST_AVAILABLE"), run, i, "in"),
                           out_edge_selection=_selector(n.get("policy_out", "FIRST_AVAILABLE"), run, i, "out"))
        elif ty == "combiner":
            pd = n.get("pd", [1])
            pdv = pd["const"] / float(Q) if isinstance(pd, dict) else _script(itertools.cycle(pd), 0, run, i, "pd", Q)
            obj = Combiner(env, nid, **ekw, node_setup_time=setup, target_quantity_of_each_item=list(n.get("recipe", [1, 1])),
                           processing_delay=pdv, blocking=n.get("blocking", True),
                           out_edge_selection=_selector(n.get("policy_out", "FIRST_AVAILABLE"), run, i, "out"))
        else:
            raise ValueError("unknown node type %r" % ty)
        obj.stats = CounterDict(obj.stats, run, i)
        nodes[i] = obj
        run.node_idx[id(obj)] = i

    def mk_edge(j):
        e = cfg["edges"][j]
        ty = e["type"]
        eid = e.get("id", "E%d" % j)
        if ty == "buffer":
            d = e.get("delay", 0)
            dv = d / float(Q) if not isinstance(d, list) else _script(itertools.cycle(d), 0, run, -1 - j, "bd", Q)
            obj = Buffer(env, eid, capacity=e.get("cap", 1), delay=dv, mode=e.get("mode", "FIFO"))
            run.store_edge[id(obj.inbuiltstore)] = j
        elif ty == "fleet":
            obj = Fleet(env, eid, capacity=e.get("cap", 1), delay=e.get("delay", 4) / float(Q),
                        transit_delay=e.get("transit", 0) / float(Q))
            run.store_edge[id(obj.inbuiltstore)] = j
        elif ty == "conveyor":
            # belt of `cap` item lengths; one item length takes `slot` ticks
            L = e.get("cap", 3)
            obj = CBelt(env, eid, conveyor_length=L, speed=float(Q) / e.get("slot", Q), item_length=1,
                        accumulating=e.get("acc", 1))
            run.store_edge[id(obj.belt)] = j
        elif ty == "slotted":
            obj = SBelt(env, eid, capacity=e.get("cap", 3), delay=e.get("slot", Q) / float(Q), accumulating=e.get("acc", 1))
            run.store_edge[id(obj.belt)] = j
        else:
            raise ValueError("unknown edge type %r" % ty)
        edges[j] = obj
        run.edge_idx[id(obj)] = j

    if cfg.get("via") == "chain":
        # built with the library's own wiring helpers (constructs/chain.py): constant delays, buffers between machines
        from factorysimpy.constructs.chain import connect_chain_with_source_sink, connect_nodes_with_buffers
        ch = cfg["chain"]
        ns, es, _src, _snk = connect_chain_with_source_sink(
            env, ch["count"], Machine, Buffer,
            node_kwargs_list=[{"processing_delay": ch["pd"][k % len(ch["pd"])] / float(Q), "blocking": ch.get("blocking", True),
                               "work_capacity": ch.get("wc", 1)} for k in range(ch["count"])],
            edge_kwargs_list=[{"capacity": ch["cap"], "delay": ch.get("bdelay", 0) / float(Q)} for _ in range(ch["count"] + 1)],
            source_cls=Source, sink_cls=Sink,
            source_kwargs={"inter_arrival_time": ch["iat"] / float(Q), "blocking": ch.get("sblocking", True)}, sink_kwargs={})
        connect_nodes_with_buffers(ns, es, None, None)
        for i, obj in enumerate(ns):
            obj.stats = CounterDict(obj.stats, run, i)
            nodes[i] = obj
            run.node_idx[id(obj)] = i
        for j, obj in enumerate(es):
            edges[j] = obj
            run.edge_idx[id(obj)] = j
            run.store_edge[id(obj.inbuiltstore)] = j
        run.nodes = nodes
        run.edges = edges
        for p, name, owner, t0 in env.procs:
            run.proc_info[id(p)] = (len(run.proc_info) + 1, run.node_idx.get(id(owner), -1), name)
        return env
    if cfg.get("via") == "mesh":
        # constructs/mesh.py: a grid of machines, every machine feeds its right and lower neighbour
        from factorysimpy.constructs.mesh import connect_mesh_with_source_sink
        m = cfg["mesh"]
        grid = [[{"processing_delay": m["pd"][r % len(m["pd"])][c % len(m["pd"][r % len(m["pd"])])] / float(Q),
                  "blocking": m.get("blocking", True), "work_capacity": m.get("wc", 1),
                  "in_edge_selection": m["pin"], "out_edge_selection": m["pout"]} for c in range(m["cols"])] for r in range(m["rows"])]
        mn, ed, src, snk = connect_mesh_with_source_sink(
            env, m["rows"], m["cols"], Machine, Buffer, node_kwargs_grid=grid,
            edge_kwargs={"capacity": m["cap"], "delay": m.get("bdelay", 0) / float(Q)},
            source_cls=Source, sink_cls=Sink,
            source_kwargs={"inter_arrival_time": m["iat"] / float(Q), "blocking": True, "out_edge_selection": m["spout"]},
            sink_kwargs={})
        ns = [src] + [x for row in mn for x in row] + [snk]
        es = list(ed.values())         # dict order = connection order
        for i, obj in enumerate(ns):
            obj.stats = CounterDict(obj.stats, run, i)
            nodes[i] = obj
            run.node_idx[id(obj)] = i
        for j, obj in enumerate(es):
            e = cfg["edges"][j]
            assert obj.src_node is ns[e["src"]] and obj.dest_node is ns[e["dst"]], "mesh wiring differs from the configuration"
            edges[j] = obj
            run.edge_idx[id(obj)] = j
            run.store_edge[id(obj.inbuiltstore)] = j
        run.nodes = nodes
        run.edges = edges
        for p, name, owner, t0 in env.procs:
            run.proc_info[id(p)] = (len(run.proc_info) + 1, run.node_idx.get(id(owner), -1), name)
        return env
    order = cfg.get("order") or ([["n", i] for i in range(len(nodes))] + [["e", j] for j in range(len(edges))])
    if cfg.get("wiring") == "ctor":
        order = [x for x in order if x[0] == "e"] + [x for x in order if x[0] == "n"]
    for what, i in order:
        (mk_node if what == "n" else mk_edge)(i)
    for j in cfg.get("connect_order") or range(len(edges)):
        e = cfg["edges"][j]
        edges[j].connect(nodes[e["src"]], nodes[e["dst"]])
    run.nodes = nodes
    run.edges = edges
    # process registry (behaviour processes were created by the constructors)
    for p, name, owner, t0 in env.procs:
        run.proc_info[id(p)] = (len(run.proc_info) + 1, run.node_idx.get(id(owner), -1), name)
    return env


# ---------------------------------------------------------------------------------------- observation
def _edge_store(edge):
    return getattr(edge, "inbuiltstore", None) or getattr(edge, "belt", None)


def snapshot(run, kind="eoi"):
    Q = run.Q
    edges = []
    for j, e in enumerate(run.edges):
        st = _edge_store(e)
        raw = list(st.items)
        its = [x[0] if isinstance(x, tuple) else x for x in raw]
        edges.append({"tr": [run.gid_of(x) for x in its], "rd": [run.gid_of(x) for x in st.ready_items],
                      "state": getattr(e, "state", "")})
    nodes = []
    for i, n in enumerate(run.nodes):
        s = n.stats
        held = []
        for attr in ("item_in_process", "pallet_in_process"):
            x = getattr(n, attr, None)
            if x is not None and id(x) in run.item_gid:
                held.append(run.gid_of(x))
        for p in getattr(n, "worker_thread_list", []):
            x = getattr(p, "item_to_put", None)
            if x is not None and id(x) in run.item_gid:
                held.append(run.gid_of(x))
        nodes.append({"gen": s.get("num_item_generated", 0), "disc": s.get("num_item_discarded", 0),
                      "proc": s.get("num_item_processed", 0), "recv": s.get("num_item_received", 0),
                      "state": str(getattr(n, "state", "")), "refs": sorted(set(held))})
    live = [t for t in run.tokens if t["state"] == "live"]
    toks = [[t["gid"], 1 if t["ev"].triggered else 0, 1 if (t["proc"] is not None and t["proc"].is_alive) else 0]
            for t in live]
    pal = [[run.gid_of(p), [run.gid_of(x) for x in p.items]] for p in run.items if hasattr(p, "items") and p.items]
    run.log(k=kind, edges=edges, nodes=nodes, toks=toks, pal=pal)


def finalise(run, T):
    Q = run.Q
    Tt = (T + run.t0) / float(Q)
    out = {"nodes": [], "edges": []}
    for i, n in enumerate(run.nodes):
        rec = {"err": ""}
        try:
            n.update_final_state_time(Tt)
        except Exception as ex:
            rec["err"] = type(ex).__name__
        s = n.stats
        rec["states"] = {k: v * Q for k, v in s.get("total_time_spent_in_states", {}).items()}
        rec["occ"] = [x * Q for x in getattr(n, "time_per_work_occupancy", [])]
        rec["cyc"] = s.get("total_cycle_time", 0) * Q if "total_cycle_time" in s else -1
        rec["sel_in"] = [int(x) for x in s.get("in_edge_selection", [])] if "in_edge_selection" in s else []
        rec["sel_out"] = [int(x) for x in s.get("out_edge_selection", [])] if "out_edge_selection" in s else []
        rec["pd"] = [x * Q for x in s.get("processing_delay", [])] if "processing_delay" in s else []
        for k in ("gen", "disc", "proc", "recv"):
            rec[k] = s.get({"gen": "num_item_generated", "disc": "num_item_discarded", "proc": "num_item_processed",
                            "recv": "num_item_received"}[k], 0)
        out["nodes"].append(rec)
    for j, e in enumerate(run.edges):
        rec = {"err": "", "avg": -1}
        try:
            for name in ("update_final_buffer_avg_content", "update_final_fleet_avg_content", "update_final_conveyor_avg_content"):
                if hasattr(e, name):
                    getattr(e, name)(Tt)
            for k, v in e.stats.items():
                if k.startswith("time_averaged"):
                    rec["avg"] = v
        except Exception as ex:
            rec["err"] = type(ex).__name__
        out["edges"].append(rec)
    items = []
    for it in run.items:
        items.append({"cr": -1 if it.timestamp_creation is None else it.timestamp_creation * Q - run.t0,
                      "en": -1 if it.timestamp_node_entry is None else it.timestamp_node_entry * Q - run.t0,
                      "ex": -1 if it.timestamp_node_exit is None else it.timestamp_node_exit * Q - run.t0})
    out["items"] = items
    run.log(k="final", t=T, **out)


def report_mid(run, Tm):
    """interim occupancy report at tick Tm (before the events of that instant)"""
    Q = run.Q
    out = []
    for j, e in enumerate(run.edges):
        rec = {"err": "", "avg": -1}
        try:
            for name in ("update_final_buffer_avg_content", "update_final_fleet_avg_content", "update_final_conveyor_avg_content"):
                if hasattr(e, name):
                    getattr(e, name)((Tm + run.t0) / float(Q))
            for k, v in e.stats.items():
                if k.startswith("time_averaged"):
                    rec["avg"] = v
        except Exception as ex:
            rec["err"] = type(ex).__name__
        out.append(rec)
    run.log(k="mid", t=Tm, edges=out)


def run_config(cfg, max_events_per_instant=5000):
    """Build and run one configuration.  Returns the trace dict {"cfg":..., "ev":[...], "outcome":...}."""
    global _RUN
    install()
    run = Run(cfg)
    _RUN = run
    T = cfg["T"]
    Q = run.Q
    outcome = "ok"
    err = ""
    try:
        with quiet():
            try:
                env = build(cfg, run)
            except BaseException as ex:       # noqa  construction rejected the configuration
                _RUN = None
                return {"cfg": cfg, "ev": run.ev, "outcome": "rejected_at_build", "err": "%s: %s" % (type(ex).__name__, ex)}
            Tt = (T + run.t0) / float(Q)
            last_t = None
            # an interim report of the edges' time-averaged occupancy half way (periodic reporting: the figures must be
            # exact then, and exact again at the end)
            Tm = int(T) // 2
            if Tm > 0 and not isinstance(T, float):
                env.urgent(lambda: report_mid(run, Tm), Tm / float(Q))
            while True:
                nxt = env.peek()
                if last_t is not None and nxt > last_t:
                    snapshot(run)          # end of the instant last_t
                if nxt >= Tt:
                    break
                try:
                    env.step()
                except BaseException as ex:   # noqa
                    outcome = "exception"
                    err = "%s: %s" % (type(ex).__name__, str(ex)[:200])
                    run.log(k="exc", err=type(ex).__name__)
                    break
                last_t = env.now
                if env.events_this_instant > max_events_per_instant:
                    outcome = "livelock"
                    run.log(k="livelock", n=env.events_this_instant)
                    break
            if outcome == "ok":
                if last_t is None:
                    snapshot(run)
                env.advance_to(Tt)         # as run(until=T): the clock reads T, events at T are not processed
                finalise(run, T)
    finally:
        _RUN = None
    maxi = run.env.max_events_per_instant if run.env else 0
    # quiescent: nothing is scheduled any more except the sources' "no further input" timers (HUGE) -- in particular no
    # buffer timer, no fleet timer, no processing delay is still running at the horizon
    try:
        quiet_end = outcome == "ok" and run.env.peek() >= HUGE / 2
    except Exception:
        quiet_end = False
    return {"cfg": cfg, "ev": run.ev, "outcome": outcome, "err": err, "max_events_per_instant": maxi,
            "offgrid": getattr(run, "offgrid", False), "quiet_end": bool(quiet_end)}
