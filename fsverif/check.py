"""Entry point of every check:  python -m fsverif.check Cnn [--tier quick|thorough] [--replay file]

exit 0  the property held on everything explored (known findings are listed as KNOWN-FINDING lines)
exit 1  a clause of the property is false on a behaviour of the real code:
        VIOLATION property=Cnn replay=<path>
exit 2  machinery failure (TLC crash, malformed trace, model/property mismatch at design level)
"""
import argparse, json, os, sys, time

os.environ.setdefault("FACTORYSIMPY_VERIF", "1")
os.environ.setdefault("PYTHONHASHSEED", "0")

from . import common


def engine_of(prop):
    from . import store_engine
    if prop in store_engine.STORE_PROPS:
        from . import store_check
        return store_check
    try:
        from . import factory_check
        if prop in factory_check.PROPS:
            return factory_check
    except ImportError:
        pass
    try:
        from . import belt_check
        if prop in belt_check.PROPS:
            return belt_check
    except ImportError:
        pass
    try:
        from . import determinism_check
        if prop in determinism_check.PROPS:
            return determinism_check
    except ImportError:
        pass
    return None


def main(argv=None):
    ap = argparse.ArgumentParser()
    ap.add_argument("prop")
    ap.add_argument("--tier", default=os.environ.get("VERIF_TIER", "quick"), choices=["quick", "thorough"])
    ap.add_argument("--seed", type=int, default=int(os.environ.get("VERIF_SEED", "0") or 0))
    ap.add_argument("--replay", default=None)
    a = ap.parse_args(argv)
    eng = engine_of(a.prop)
    if eng is None:
        print("no engine for", a.prop)
        return 2
    t0 = time.time()
    if a.replay:
        return eng.replay(a.prop, a.replay)
    try:
        out = eng.run(a.prop, a.tier, a.seed)
    except BaseException as ex:      # noqa  a failure of the machinery is never a verdict
        import traceback
        traceback.print_exc()
        print("MACHINERY-ERROR property=%s %s: %s" % (a.prop, type(ex).__name__, ex))
        return 2
    wall = time.time() - t0
    nviol = 0
    for v in out["violations"]:
        k = common.match_known(a.prop, v)
        if k is not None:
            print("KNOWN-FINDING: property=%s %s" % (a.prop, k.get("what", v.get("clause"))))
            continue
        nviol += 1
        if nviol <= 5:
            path = common.write_replay(a.prop, v)
            print("VIOLATION property=%s replay=%s clause=%s" % (a.prop, path, v.get("clause")))
    common.write_evidence(a.prop, a.tier, a.seed, out["level"], out["coverage"], wall, nviol, out["assumptions"])
    if out.get("machinery_errors"):
        for m in out["machinery_errors"][:5]:
            print("MACHINERY-ERROR property=%s %s" % (a.prop, m))
        if nviol == 0:
            return 2
    print("%s %s: %s in %.1fs  (%s)" % (a.prop, a.tier, "VIOLATED" if nviol else "held", wall, out.get("summary", "")))
    return 1 if nviol else 0


class common_MachineryError(Exception):
    pass


if __name__ == "__main__":
    sys.exit(main())
