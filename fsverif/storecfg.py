"""Store model configurations (kinds x bounds) for leg A / leg B."""

STORE_INVARIANTS = {
    "C01": ["M_C01_Cap", "M_C01_PutHonoured"],
    "C02": ["M_C02_Backed", "M_C02_Distinct", "M_C02_GetHonoured", "M_C02_Conserve"],
    "C04": ["M_C04_Put", "M_C04_Get"],
    "C05": ["M_C05_Queues", "M_C05_HeadOnly"],
    "C06": ["M_C06_Grant", "M_C06_CancelLocal"],
    "C07": ["M_C07"],
    "C11": ["M_C11_CanPut", "M_C11_CanGet", "M_C11_NotBefore", "M_C11_FromThen"],
    "C14": ["M_C14_Trips", "M_C14_CapTrigger"],
    "C12": ["M_C12_Travel"],      # slotted belt store as a StoreCore kind (read by the belt engine)
}
ALL_STORE_INVS = [i for v in STORE_INVARIANTS.values() for i in v]


def base(kind, **kw):
    c = dict(Fixed=True, Kind=kind, Mode="FIFO", Cap=2, FDelay=1, Transit=0, Trig=0, Procs={0, 1}, Prios={0},
             Filters={1}, Tags={0}, Delays={0}, MaxLive=4)
    c.update(kw)
    return c


def configs(tier):
    """name -> constants"""
    q = tier == "quick"
    C = {}
    C["prio_c2"] = base("prio", Cap=2, Prios={0, 1}, MaxLive=4 if q else 5)
    C["prio_c1"] = base("prio", Cap=1, Prios={0, 1}, MaxLive=4 if q else 5)
    C["plain_c2"] = base("plain", Cap=2, MaxLive=4 if q else 6)
    C["filter_c2"] = base("filter", Cap=2, Prios={0, 1} if not q else {0}, Filters={0, 1, 2}, Tags={0, 1}, Trig=1, MaxLive=3)
    C["buffer_fifo"] = base("buffer", Cap=2, Delays={0, 1}, MaxLive=4)
    C["buffer_lifo"] = base("buffer", Cap=2, Mode="LIFO", Delays={0, 1}, MaxLive=4)
    C["fleet_d2t1"] = base("fleet", Cap=2, FDelay=2, Transit=1, MaxLive=3 if q else 4)
    C["fleet_d1t0"] = base("fleet", Cap=2, FDelay=1, Transit=0, MaxLive=3 if q else 4)
    # the slotted belt store behind the slotted conveyor (Trig = slot delay in ticks, travel = Cap * Trig)
    C["slotted_c2s1"] = base("slotted", Cap=2, Trig=1, MaxLive=4)
    C["slotted_c1s2"] = base("slotted", Cap=1, Trig=2, MaxLive=4)
    C["slotted_c2s2"] = base("slotted", Cap=2, Trig=2, MaxLive=3 if q else 4)
    C["slotted_prio"] = base("slotted", Cap=2, Trig=1, Prios={0, 1}, MaxLive=3 if q else 4)
    if not q:
        C["slotted_c3s1"] = base("slotted", Cap=3, Trig=1, MaxLive=4)
        C["prio_c3"] = base("prio", Cap=3, Prios={0, 1, 2}, MaxLive=4)     # (a .cfg cannot hold negative numbers)
        C["buffer_fifo_c3"] = base("buffer", Cap=3, Delays={0, 1, 2}, MaxLive=4)
        C["buffer_lifo_c3"] = base("buffer", Cap=3, Mode="LIFO", Delays={0, 1, 2}, MaxLive=4)
        C["fleet_c3"] = base("fleet", Cap=3, FDelay=3, Transit=1, MaxLive=4)
        C["fleet_d2t0"] = base("fleet", Cap=2, FDelay=2, Transit=0, Prios={0, 1}, MaxLive=4)
        C["filter_c3"] = base("filter", Cap=3, Filters={0, 1, 2}, Tags={0, 1}, Trig=1, MaxLive=3)
        C["filter_t0"] = base("filter", Cap=2, Filters={1, 2, 3}, Tags={0, 1}, Trig=0, Prios={0, 1}, MaxLive=3)
        C["filter_m4"] = base("filter", Cap=2, Filters={0, 2}, Tags={0, 1}, Trig=1, MaxLive=4, Procs={0})
    return C


def walk_configs(tier):
    """Bounds of the graphs that are exported by TLC and walked edge by edge on the real classes."""
    q = tier == "quick"
    ml = 3 if q else 4
    W = {}
    W["prio_c2"] = base("prio", Cap=2, Prios={0, 1}, MaxLive=ml)
    W["prio_c1"] = base("prio", Cap=1, Prios={0, 1}, MaxLive=ml)
    W["plain_c2"] = base("plain", Cap=2, MaxLive=4 if q else 5)
    W["filter_user"] = base("filter", Cap=2, Filters={1, 2}, Tags={0, 1}, Trig=0, MaxLive=3)
    W["filter_age"] = base("filter", Cap=2, Filters={0, 1}, Tags={0}, Trig=1, MaxLive=3)
    W["buffer_fifo"] = base("buffer", Cap=2, Delays={0, 1}, MaxLive=ml)
    W["buffer_lifo"] = base("buffer", Cap=2, Mode="LIFO", Delays={0, 1}, MaxLive=ml)
    W["fleet_d2t1"] = base("fleet", Cap=2, FDelay=2, Transit=1, MaxLive=3)
    W["fleet_d1t0"] = base("fleet", Cap=2, FDelay=1, Transit=0, MaxLive=3)
    W["slotted_c2s1"] = base("slotted", Cap=2, Trig=1, MaxLive=3)
    W["slotted_c1s2"] = base("slotted", Cap=1, Trig=2, MaxLive=3)
    W["slotted_prio"] = base("slotted", Cap=1, Trig=1, Prios={0, 1}, MaxLive=3)
    if not q:
        W["slotted_c2s2"] = base("slotted", Cap=2, Trig=2, MaxLive=3)
        W["slotted_c3s1"] = base("slotted", Cap=3, Trig=1, MaxLive=3)
        W["fleet_prio"] = base("fleet", Cap=2, FDelay=2, Transit=0, Prios={0, 1}, MaxLive=3)
        W["buffer_fifo_c3"] = base("buffer", Cap=3, Delays={0, 2}, MaxLive=3)
        W["filter_mixed"] = base("filter", Cap=2, Filters={0, 2}, Tags={0, 1}, Trig=1, MaxLive=3, Procs={0})
    return W


def store_cfg_of(c):
    d = dict(kind=c["Kind"], mode=c["Mode"], cap=c["Cap"], fdelay=c["FDelay"], transit=c["Transit"], trig=c["Trig"])
    if c["Kind"] == "slotted":
        d.update(slot=c["Trig"], acc=1)
        if c["Prios"] != {0}:
            d["prio_api"] = True
    return d
