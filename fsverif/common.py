"""Shared plumbing: hashing of the trees, cache, evidence, known findings, verdict output."""
import hashlib, json, os, sys, time

VERIF = os.path.dirname(os.path.dirname(os.path.abspath(__file__)))
REPO = os.environ.get("FSV_REPO", "/repo")
CACHE = os.path.join(VERIF, ".cache")
EVIDENCE = os.environ.get("FSV_EVIDENCE", os.path.join(VERIF, "evidence"))
REPLAYS = os.environ.get("FSV_REPLAYS", os.path.join(VERIF, "replays"))
KNOWN = os.path.join(VERIF, "known_findings.json")
HARNESS_VERSION = "1"


def _hash_tree(root, exts):
    h = hashlib.sha256()
    for d, dirs, files in sorted(os.walk(root)):
        dirs.sort()
        if "__pycache__" in d or "/.cache" in d:
            continue
        for f in sorted(files):
            if f.endswith(exts):
                p = os.path.join(d, f)
                h.update(p.encode())
                with open(p, "rb") as fh:
                    h.update(fh.read())
    return h.hexdigest()


_memo = {}


def src_root():
    """The factorysimpy package the checks actually import (normally /repo/src/factorysimpy)."""
    import factorysimpy
    return os.path.dirname(os.path.abspath(factorysimpy.__file__))


def src_hash():
    if "src" not in _memo:
        _memo["src"] = _hash_tree(src_root(), (".py",))[:16]
    return _memo["src"]


def spec_hash():
    if "spec" not in _memo:
        _memo["spec"] = _hash_tree(os.path.join(VERIF, "spec"), (".tla",))[:16]
    return _memo["spec"]


def harness_hash():
    if "h" not in _memo:
        _memo["h"] = _hash_tree(os.path.join(VERIF, "fsverif"), (".py",))[:16]
    return _memo["h"]


def cache_dir(*parts):
    p = os.path.join(CACHE, *parts)
    os.makedirs(p, exist_ok=True)
    return p


def load_json(p, default=None):
    try:
        with open(p) as f:
            return json.load(f)
    except (OSError, ValueError):
        return default


def save_json(p, obj):
    os.makedirs(os.path.dirname(p), exist_ok=True)
    tmp = p + ".tmp%d" % os.getpid()
    with open(tmp, "w") as f:
        json.dump(obj, f)
    os.replace(tmp, p)


def known_findings():
    d = load_json(KNOWN, {"findings": [], "fixed": []})
    return d


def match_known(prop, violation):
    """violation: dict(clause, component, ...).  A known finding matches when all its signature
    fields are equal to the violation's fields."""
    for k in known_findings().get("findings", []):
        if k.get("property") != prop:
            continue
        sig = k.get("signature", {})
        if all(violation.get(f) == v for f, v in sig.items()):
            return k
    return None


def write_evidence(prop, tier, seed, level, coverage, wall, violations, assumptions):
    ev = {"property_id": prop, "tier": tier, "seed": int(seed), "level": level, "coverage": coverage,
          "assumptions": assumptions, "wall_s": round(wall, 2), "violations": int(violations)}
    save_json(os.path.join(EVIDENCE, prop + ".json"), ev)
    return ev


def write_replay(prop, payload):
    os.makedirs(REPLAYS, exist_ok=True)
    h = hashlib.sha256(json.dumps(payload, sort_keys=True).encode()).hexdigest()[:12]
    p = os.path.join(REPLAYS, "%s-%s.json" % (prop, h))
    save_json(p, payload)
    return p


def from_library(ex):
    """Did this exception come out of code of the library under test (a frame of the imported factorysimpy package is on
    its traceback, or on that of its cause)?  Used to tell a crash of one of the library's own processes (a verdict
    matter) from a bug of the harness (machinery failure)."""
    root = os.path.dirname(src_root()) if os.path.isfile(src_root()) else src_root()
    seen = set()
    while ex is not None and id(ex) not in seen:
        seen.add(id(ex))
        tb = ex.__traceback__
        while tb is not None:
            fn = tb.tb_frame.f_code.co_filename
            if "factorysimpy" in fn and "/fsverif/" not in fn:
                return True
            tb = tb.tb_next
        ex = ex.__cause__ or ex.__context__
    return False
