"""Outside-in instrumentation of the SimPy kernel (no source hooks in /repo).

TracedEnvironment is a simpy.Environment that
  * remembers every Process with the name of its generator function and the object it runs for,
  * lets the harness make a call at the current instant BEFORE the events already due now
    (an URGENT event, the technique run(until=) uses itself),
  * can be stepped event by event and tells when the current instant is over,
  * counts the events of each instant (C20).
The library prints on almost every step: `quiet()` silences stdout while it runs.
"""
import contextlib, io, os, sys
import simpy
from simpy.core import URGENT, NORMAL
from simpy.events import Event

GUARD = "FACTORYSIMPY_VERIF"


def guard_on():
    return os.environ.get(GUARD, "") == "1"


class _Null(io.TextIOBase):
    def write(self, s):
        return len(s)


@contextlib.contextmanager
def quiet():
    old = sys.stdout
    sys.stdout = _Null()
    try:
        yield
    finally:
        sys.stdout = old


class TracedEnvironment(simpy.Environment):
    def __init__(self, initial_time=0):
        super().__init__(initial_time)
        self.procs = []            # [(process, gen_name, owner)]
        self.events_this_instant = 0
        self.max_events_per_instant = 0
        self._instant = initial_time
        self.nsteps = 0
        self.on_step = None        # callback(env) after every kernel event

    # -- process registry -------------------------------------------------
    def process(self, generator):
        p = super().process(generator)
        name = getattr(generator, "__name__", "?")
        owner = None
        fr = getattr(generator, "gi_frame", None)
        if fr is not None:
            owner = fr.f_locals.get("self")
        self.procs.append((p, name, owner, self.now))
        return p

    def live_procs(self, name=None, owner=None):
        out = []
        for p, n, o, t0 in self.procs:
            if p.is_alive and (name is None or n == name) and (owner is None or o is owner):
                out.append((p, n, o, t0))
        return out

    def gc_procs(self):
        self.procs = [x for x in self.procs if x[0].is_alive]

    # -- stepping -----------------------------------------------------------
    def step(self):
        t = self.peek()
        if t != self._instant:
            self._instant = t
            self.events_this_instant = 0
        self.events_this_instant += 1
        if self.events_this_instant > self.max_events_per_instant:
            self.max_events_per_instant = self.events_this_instant
        self.nsteps += 1
        super().step()
        if self.on_step is not None:
            self.on_step(self)

    def head(self):
        """(time, priority) of the next kernel event or None."""
        if not self._queue:
            return None
        return self._queue[0][0], self._queue[0][1]

    def instant_over(self):
        h = self.head()
        return h is None or h[0] > self.now

    def drain_urgent(self):
        """Process start events (URGENT, delay 0) created by the last call."""
        while self._queue and self._queue[0][0] == self.now and self._queue[0][1] == URGENT:
            self.step()

    def heap_times(self):
        return {id(ev): t for (t, _p, _e, ev) in self._queue}

    def urgent(self, fn, delay=0):
        """Run fn() (no active process) at now+delay before every NORMAL event of that instant."""
        ev = Event(self)
        ev._ok = True
        ev._value = None
        ev.callbacks.append(lambda _e: fn())
        self.schedule(ev, URGENT, delay)
        return ev

    def advance_to(self, t):
        """Make env.now == t without processing any NORMAL event scheduled at t."""
        assert t >= self.now
        done = []
        ev = self.urgent(lambda: done.append(1), t - self.now)
        while not done:
            self.step()
        return ev


class Commander:
    """Driver processes that execute one harness command at a time as `active_process`."""

    def __init__(self, env, nprocs):
        self.env = env
        self.slots = {}
        self.result = None
        for p in range(1, nprocs + 1):
            self.slots[p] = env.event()
            env.process(self._run(p))
        env.drain_urgent()

    def _run(self, p):
        while True:
            fn = yield self.slots[p]
            try:
                self.result = ("ret", fn())
            except BaseException as e:  # noqa
                self.result = ("exc", e)

    def call(self, p, fn):
        """Execute fn() now as process p (p = 0: outside any process); returns ('ret', v) | ('exc', e)."""
        env = self.env
        self.result = None
        if p == 0:
            def run():
                try:
                    self.result = ("ret", fn())
                except BaseException as e:  # noqa
                    self.result = ("exc", e)
            env.urgent(run)
        else:
            ev = self.slots[p]
            self.slots[p] = env.event()
            ev._ok = True
            ev._value = fn
            env.schedule(ev, URGENT, 0)
        while self.result is None:
            env.step()
        env.drain_urgent()
        return self.result
