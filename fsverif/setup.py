"""setup_cmd: parse every specification, byte-compile the harness, warm the source-independent leg-A cache."""
import compileall, os, subprocess, sys
from . import common


def main():
    spec = os.path.join(common.VERIF, "spec")
    bad = 0
    for f in sorted(os.listdir(spec)):
        if f.endswith(".tla"):
            p = subprocess.run(["tla-sany", f], cwd=spec, stdout=subprocess.PIPE, stderr=subprocess.STDOUT, text=True)
            ok = p.returncode == 0 and "*** Errors" not in p.stdout and "Could not parse" not in p.stdout
            print("sany", f, "ok" if ok else "FAILED")
            if not ok:
                print(p.stdout[-1500:])
                bad += 1
    compileall.compile_dir(os.path.join(common.VERIF, "fsverif"), quiet=1)
    import factorysimpy, simpy  # noqa: the repository's package must be importable
    print("factorysimpy from", common.src_root(), "simpy", simpy.__version__)
    return 1 if bad else 0


if __name__ == "__main__":
    sys.exit(main())
