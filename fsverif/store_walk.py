"""Leg B for stores: TLC exports the complete labelled state graph of spec/Store.tla for a bound;
this module walks a covering tour of that graph on the real class.

Every (state, call) pair of the graph -- well-formed or ill-formed call -- is executed on the real
object at least once (quantifier of C07, verbatim).  After every step the real object's white-box
projection is compared with the model state (drift, not a verdict) and the black-box trace is kept
for leg C (Trace_Store.tla judges it).
Timer steps are resolved by the implementation: the harness steps the kernel and looks up which of
the model's fire-successors the real object moved to.
"""
import hashlib, json, os, random, time
from . import tlc, common
from .store_driver import RealStore, random_history, crash_event

FIRE_OPS = ("fireitem", "firetimer", "firetrip", "fireact")


def _norm_state(s):
    """drop ghost fields, normalise key order"""
    def it(x):
        return {"id": x["id"], "tag": x["tag"], "rem": x["rem"], "trip": x["trip"]}
    return {
        "putQ": s["putQ"], "putRes": s["putRes"], "getQ": s["getQ"], "getRes": s["getRes"],
        "resEv": s["resEv"], "resIt": s["resIt"], "items": [it(x) for x in s["items"]],
        "ready": [it(x) for x in s["ready"]], "timers": s["timers"], "act": s["act"], "trips": s["trips"],
    }


def key_full(s):
    return json.dumps(s, sort_keys=True)


def key_proj(s, kind):
    n = _norm_state(s)
    if kind != "fleet":
        n["act"] = None
    return json.dumps(n, sort_keys=True)


def export_graph(constants, timeout=900, workers=16):
    """Run TLC with the ExportGraph invariant; returns (graph, tlc result).
    graph: {full_key: {"st": state, "succ": [row...]}}; rows get "nk" = key of next state (or None = same)."""
    cfg = tlc.make_cfg(constants, invariants=["ExportGraph"], view="View")
    r = tlc.run_tlc("Store", cfg, timeout=timeout, workers=workers, jvm=("-Xmx12g",))
    if not r.completed or r.violations or r.errors:
        raise RuntimeError("graph export failed: %s\n%s" % (r.as_dict(), r.stdout[-2000:]))
    graph = {}
    for line in r.stdout.splitlines():
        if not line.startswith('"{'):
            continue
        rec = json.loads(json.loads(line))
        k = key_full(rec["st"])
        rows = []
        for row in rec["succ"]:
            nk = key_full(row["nxt"][0]) if row["nxt"] else None
            rows.append({"c": row["c"], "r": row["r"], "wf": row["wf"], "nk": nk})
        rows.sort(key=lambda x: json.dumps(x["c"], sort_keys=True))
        graph[k] = {"st": rec["st"], "succ": rows}
    r.stdout = ""
    return graph, r


def init_key(graph):
    for k, v in graph.items():
        s = v["st"]
        if not (s["putQ"] or s["putRes"] or s["getQ"] or s["getRes"] or s["items"] or s["ready"] or s["trips"]
                or s["timers"]) and not s["act"]["armed"]:
            # fleet: the initial timer value is the largest one
            pass
    # the initial state is the empty store with act.rem = fdelay; pick the empty state with max act.rem
    best = None
    for k, v in graph.items():
        s = v["st"]
        if s["putQ"] or s["putRes"] or s["getQ"] or s["getRes"] or s["items"] or s["ready"] or s["trips"] \
                or s["timers"] or s["act"]["armed"]:
            continue
        if best is None or s["act"]["rem"] > graph[best]["st"]["act"]["rem"]:
            best = k
    return best


class Tour:
    def __init__(self, graph, cfg, seed=0, max_trace_len=250, nprocs=2, via_edge=True, budget_s=None, alpha=None):
        self.g = graph
        self.cfg = cfg
        self.kind = cfg["kind"]
        self.rng = random.Random(seed)
        self.alpha = alpha or {"prios": (0,), "filters": (1,), "tags": (0,), "delays": (0,)}
        self.max_len = max_trace_len
        self.nprocs = nprocs
        self.via_edge = via_edge
        self.init = init_key(graph)
        self.unvis = {k: set(range(len(v["succ"]))) for k, v in graph.items()}
        self.total_edges = sum(len(v["succ"]) for v in graph.values())
        self.n_unvis = self.total_edges
        self.traces = []
        self.drift = []            # [(trace idx, step, what)]
        self.unrealised = 0
        self.steps = 0
        self.budget_s = budget_s
        self.dead_rows = set()     # fire rows the implementation never takes from that state

    # --- planning --------------------------------------------------------
    def _build_adj(self):
        self.adj = {}
        self.radj = {k: [] for k in self.g}
        for k, v in self.g.items():
            seen = set()
            out = []
            for i, row in enumerate(v["succ"]):
                nk = row["nk"]
                if nk is None or nk in seen or nk not in self.g or (k, i) in self.dead_rows:
                    continue
                seen.add(nk)
                out.append((i, nk))
                self.radj[nk].append((k, i))
            self.adj[k] = out
        self.hop = None

    def _rebuild_hops(self):
        """multi-source reverse BFS from every state that still has unvisited rows"""
        hop = {}
        frontier = [k for k, u in self.unvis.items() if u]
        for k in frontier:
            hop[k] = None
        while frontier:
            nxt = []
            for k in frontier:
                for (pk, pi) in self.radj[k]:
                    if pk not in hop:
                        hop[pk] = (pi, k)
                        nxt.append(pk)
            frontier = nxt
        self.hop = hop

    def _path_to_unvisited(self, cur):
        """row indices leading from cur to the nearest state with an unvisited row"""
        if self.unvis[cur]:
            return []
        if not hasattr(self, "adj"):
            self._build_adj()
        for attempt in (0, 1):
            if self.hop is None:
                self._rebuild_hops()
            path = []
            k = cur
            ok = True
            while True:
                h = self.hop.get(k, 0)
                if h == 0:
                    ok = False
                    break
                if h is None:
                    break
                path.append((k, h[0]))
                k = h[1]
            if ok and self.unvis[k]:
                return path
            if ok and not self.unvis[k]:
                self.hop = None      # stale: the target was exhausted meanwhile
                continue
            if not ok and attempt == 0:
                self.hop = None
                continue
            return None
        return None

    # --- execution --------------------------------------------------------
    def _off_model(self, n=40):
        """The real object left the model (drift).  Keep driving it blindly for a while so that the
        consequences of the deviation are in the trace that leg C judges."""
        try:
            random_history(self.real, self.rng, n, prios=self.alpha["prios"], filters=self.alpha["filters"],
                           tags=self.alpha["tags"], delays=self.alpha["delays"], nprocs=self.nprocs, max_live=4,
                           out=self.trace["ev"])
        except Exception as ex:      # the mutated object may be beyond repair; the trace so far stands
            if not common.from_library(ex):
                raise
            self.trace["src"] = "tlc-graph+offmodel-crash:%s" % type(ex).__name__
            self.trace["ev"].append(crash_event(self.real, self.trace["ev"]))

    def _exec_guarded(self, i):
        """_exec_row; an exception out of the library's own processes ends the trace with a crash event"""
        try:
            return self._exec_row(i)
        except Exception as ex:
            if not common.from_library(ex):
                raise
            self.trace["src"] = "tlc-graph+crash:%s" % type(ex).__name__
            self.trace["ev"].append(crash_event(self.real, self.trace["ev"]))
            self.drift.append({"trace": len(self.traces) - 1, "step": len(self.trace["ev"]), "what": "crash",
                               "model": "-", "real": "%s: %s" % (type(ex).__name__, str(ex)[:120])})
            self.crashed = True
            return False

    def _fresh(self):
        self.real = RealStore(self.cfg, nprocs=self.nprocs, via_edge=self.via_edge)
        self.cur = self.init
        self.trace = {"cfg": self.cfg, "src": "tlc-graph", "ev": [self.real.settle()]}   # initial observation
        self.traces.append(self.trace)

    def _check_proj(self, what):
        p = key_proj(self.real.project(), self.kind)
        m = key_proj(self.g[self.cur]["st"], self.kind)
        if p != m:
            self.drift.append({"trace": len(self.traces) - 1, "step": len(self.trace["ev"]), "what": what,
                               "model": m, "real": p})
            return False
        return True

    def _mark(self, k, i):
        if i in self.unvis[k]:
            self.unvis[k].discard(i)
            self.n_unvis -= 1

    def _exec_row(self, i):
        """execute row i of the current state on the real object; returns False if the walk must restart"""
        k = self.cur
        row = self.g[k]["succ"][i]
        c = row["c"]
        op = c["op"]
        self.steps += 1
        if op == "tick":
            self.trace["ev"].append(self.real.settle())     # the instant is over: end-of-instant observation
            ev = self.real.tick()
            self.trace["ev"].append(ev)
            self._mark(k, i)
            self.cur = row["nk"] if row["nk"] is not None else k
            return self._check_proj("tick")
        if op in FIRE_OPS:
            ev, changed = self.real.fire()
            self.trace["ev"].append(ev)
            proj = key_proj(self.real.project(), self.kind)
            # which fire row did the implementation take?
            cand = []
            for j, r2 in enumerate(self.g[k]["succ"]):
                if r2["c"]["op"] in FIRE_OPS:
                    tgt = r2["nk"] if r2["nk"] is not None else k
                    if tgt in self.g and key_proj(self.g[tgt]["st"], self.kind) == proj:
                        cand.append(j)
            if not cand:
                self._mark(k, i)
                self.drift.append({"trace": len(self.traces) - 1, "step": len(self.trace["ev"]), "what": "fire",
                                   "model": [key_proj(self.g[(r2["nk"] or k)]["st"], self.kind)
                                             for r2 in self.g[k]["succ"] if r2["c"]["op"] in FIRE_OPS][:3],
                                   "real": proj})
                return False
            j = cand[0] if i not in cand else i
            if j != i:
                self.unrealised += 1
                self._mark(k, i)       # tried; the implementation orders these timers differently
                nk_i = row["nk"]
                if hasattr(self, "radj") and nk_i in self.radj and (k, i) in self.radj[nk_i]:
                    self.radj[nk_i].remove((k, i))     # never plan a route over this row again
                    self.hop = None
                self.dead_rows.add((k, i))
            self._mark(k, j)
            r2 = self.g[k]["succ"][j]
            self.cur = r2["nk"] if r2["nk"] is not None else k
            return True
        # API call
        ev, res = self.real.call(c)
        self.trace["ev"].append(ev)
        self._mark(k, i)
        exp = row["r"]
        ok = True
        if exp[0] == "tok":
            ok = res[0] == "tok"
        elif exp[0] == "item":
            ok = res[0] == "item" and res[1] == exp[1] and res[2] == exp[2]
        else:
            ok = res[0] == exp[0]
        self.cur = row["nk"] if row["nk"] is not None else k
        if not ok:
            self.drift.append({"trace": len(self.traces) - 1, "step": len(self.trace["ev"]), "what": "result",
                               "call": c, "model": exp, "real": res})
            return False
        return self._check_proj(op)

    def run(self):
        t0 = time.time()
        self._fresh()
        while self.n_unvis > 0:
            if self.budget_s is not None and time.time() - t0 > self.budget_s:
                break
            if len(self.trace["ev"]) >= self.max_len:
                self.trace["ev"].append(self.real.settle())
                self._fresh()
            if self.unvis[self.cur]:
                # prefer ill-formed / self-loop rows first (cheap), then a random state-changing one
                cand = sorted(self.unvis[self.cur])
                loops = [i for i in cand if self.g[self.cur]["succ"][i]["nk"] is None]
                i = loops[0] if loops else self.rng.choice(cand)
                if not self._exec_guarded(i):
                    if not getattr(self, "crashed", False):
                        self._off_model()
                    self.crashed = False
                    self._fresh()
                continue
            path = self._path_to_unvisited(self.cur)
            if path is None:
                if self.cur == self.init:
                    break           # the rest is unreachable from init over visited structure
                self._fresh()
                continue
            ok = True
            for (k, i) in path:
                if k != self.cur:
                    break           # a timer step went another way than planned: plan again
                if not self._exec_guarded(i):
                    ok = False
                    break
                if len(self.trace["ev"]) >= self.max_len + 50:
                    break
            if not ok:
                if not getattr(self, "crashed", False):
                    self._off_model()
                self.crashed = False
                self._fresh()
        self.trace["ev"].append(self.real.settle())
        self.wall = time.time() - t0
        return self

    def stats(self):
        return {"states": len(self.g), "edges": self.total_edges, "edges_covered": self.total_edges - self.n_unvis,
                "unrealised_timer_orders": self.unrealised, "steps": self.steps, "traces": len(self.traces),
                "drift": len(self.drift), "wall": round(getattr(self, "wall", 0), 2)}
