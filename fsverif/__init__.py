"""fsverif: model-based verification harness for FactorySimPy (see /verif/DESIGN.md)."""
