"""Leg A for factories: spec/Factory.tla checked by TLC over families of configurations.
The configurations are the source/machine/sink members of factory_cfg (buffer and fleet edges,
FIRST_AVAILABLE / ROUND_ROBIN / constant policies), written into an MC module as TLA+ values."""
import os, itertools, multiprocessing as mp
from . import common, tlc, factory_cfg

F_INVS = ["F_C01_Cap", "F_C03_OnePlace", "F_C03_Counts", "F_C03_Quiescent", "F_C04_EOI", "F_C08_Cap",
          "F_C09_BlockingNoDiscard", "F_C09_NonBlockingNow", "F_C10_NoOrphan", "F_C10_GrantedUsed",
          "F_C10_TakeInput", "F_C10_PushOutput", "F_C16_Recipe", "F_C16_SplitterEmits", "F_C20_FiniteInstant"]


def _pol(p):
    if p == "FIRST_AVAILABLE":
        return -1
    if p == "ROUND_ROBIN":
        return -2
    if p == "RANDOM":
        return -4            # RND: every choice is a behaviour of the model
    if isinstance(p, int):
        return p
    if isinstance(p, dict) and "script" in p:
        return -3            # SCR: the script itself goes into pinS / poutS
    return None


def supported(c):
    if c.get("expect") != "valid":
        return False
    for n in c["nodes"]:
        if n["type"] not in ("source", "machine", "sink", "splitter", "combiner"):
            return False
        if n["type"] == "combiner" and (n.get("policy_out", "FIRST_AVAILABLE") == "FIRST_AVAILABLE") and not n.get("blocking", True):
            pass
        for k in ("policy_in", "policy_out"):
            if k in n and _pol(n[k]) is None:
                return False
    # RANDOM on both sides of a node with two sources behind it: 2^(items) choice sequences times all interleavings do not
    # finish; those configurations stay with trace validation (leg C)
    if sum(1 for n in c["nodes"] for k in ("policy_in", "policy_out") if n.get(k) == "RANDOM") >= 2:
        return False
    for e in c["edges"]:
        if e["type"] not in ("buffer", "fleet", "slotted") or isinstance(e.get("delay", 0), list):
            return False
        # the slotted conveyor is a StoreCore kind; its can_put() raises (known finding of C20), so only blocking
        # nodes may feed it in the model
        if e["type"] == "slotted" and not c["nodes"][e["src"]].get("blocking", True):
            return False
    return True


def tla(v):
    if isinstance(v, bool):
        return "TRUE" if v else "FALSE"
    if isinstance(v, int):
        return str(v)
    if isinstance(v, str):
        return '"%s"' % v
    if isinstance(v, (list, tuple)):
        return "<<" + ", ".join(tla(x) for x in v) + ">>"
    if isinstance(v, dict):
        return "[" + ", ".join("%s |-> %s" % (k, tla(x)) for k, x in v.items()) + "]"
    raise TypeError(v)


def _unroll(c):
    """constant delays (constructs, repository test scenarios) as finite scripts that cover the model's horizon"""
    def one(n):
        n = dict(n)
        if isinstance(n.get("iat"), dict):
            n["iat"] = [n["iat"]["const"]] * (MAXT // max(1, n["iat"]["const"]) + 2)
        if isinstance(n.get("pd"), dict):
            n["pd"] = [n["pd"]["const"]]
        return n
    return dict(c, nodes=[one(n) for n in c["nodes"]])


def to_model(c):
    c = _unroll(c)
    nodes = []
    for i, n in enumerate(c["nodes"]):
        ins = [j + 1 for j, e in enumerate(c["edges"]) if e["dst"] == i]
        outs = [j + 1 for j, e in enumerate(c["edges"]) if e["src"] == i]
        nodes.append({"type": n["type"], "blocking": bool(n.get("blocking", True)), "wc": n.get("wc", 1),
                      "setup": n.get("setup", 0) if n["type"] in ("machine", "splitter", "combiner") else 0,
                      "recipe": list(n.get("recipe", [1])) if n["type"] == "combiner" else [1],
                      "iat": list(n.get("iat", [1])) if n["type"] == "source" else [1],
                      "pd": list(n.get("pd", [1])) if n["type"] in ("machine", "splitter", "combiner") else [1],
                      "pin": _pol(n.get("policy_in", "FIRST_AVAILABLE")), "pout": _pol(n.get("policy_out", "FIRST_AVAILABLE")),
                      "pinS": list(n["policy_in"]["script"]) if isinstance(n.get("policy_in"), dict) else [0],
                      "poutS": list(n["policy_out"]["script"]) if isinstance(n.get("policy_out"), dict) else [0],
                      "ins": ins, "outs": outs})
    edges = []
    for e in c["edges"]:
        fleet = e["type"] == "fleet"
        if e["type"] == "slotted":
            edges.append({"kind": "slotted", "mode": "FIFO", "cap": e.get("cap", 3), "delay": 0, "fdelay": 1, "transit": 0,
                          "trig": e.get("slot", 4)})
            continue
        edges.append({"kind": "fleet" if fleet else "buffer", "mode": e.get("mode", "FIFO"), "cap": e.get("cap", 1),
                      "delay": 0 if fleet else e.get("delay", 0), "fdelay": e.get("delay", 4) if fleet else 1,
                      "transit": e.get("transit", 0) if fleet else 0, "trig": 0})
    return {"nodes": nodes, "edges": edges, "drains": bool(c.get("drains")) and not any(x["kind"] in ("fleet", "slotted") for x in edges)}


def _one(args):
    name, cfgs, maxT = args[:3]
    limit = args[3] if len(args) > 3 else 900
    mc = "---- MODULE MC_%s ----\nEXTENDS Factory\nMCConfigs == <<\n  %s\n>>\n====\n" % (
        name, ",\n  ".join(tla(to_model(c)) for c in cfgs))
    wd = os.path.join(tlc.CACHE, "tlc", "factory-%s-%d" % (name, os.getpid()))
    os.makedirs(wd, exist_ok=True)
    # run_tlc copies spec/*.tla into wd; add the generated module there first
    with open(os.path.join(wd, "MC_%s.tla" % name), "w") as f:
        f.write(mc)
    cfg = "CONSTANTS\n Fixed = TRUE\n Configs <- MCConfigs\n MaxT = %d\n MaxSteps = 400\nINIT Init\nNEXT Next\n" % maxT
    cfg += "".join("INVARIANT %s\n" % i for i in F_INVS) + "INVARIANT ReportOutcome\nINVARIANT ReportInstants\nCHECK_DEADLOCK FALSE\n"
    r = tlc.run_tlc("MC_%s" % name, cfg, workers=8, timeout=limit, workdir=wd)
    out = r.as_dict()
    out["name"] = name
    out["configs"] = len(cfgs)
    import re
    outcomes = {}
    flat = re.sub(r"\s+", "", r.stdout)
    for cid, seq in re.findall(r'<<"F",(\d+),<<([0-9,]*)>>>>', flat):
        outcomes.setdefault(cfgs[int(cid) - 1]["name"], set()).add(seq)
    out["outcomes"] = {k: sorted(v) for k, v in outcomes.items()}
    instants = {}
    for cid, t, seq in re.findall(r'<<"E",(\d+),(\d+),<<([0-9,]*)>>>>', flat):
        instants.setdefault(cfgs[int(cid) - 1]["name"], {}).setdefault(t, set()).add(seq)
    out["instants"] = {k: {t: sorted(v) for t, v in d.items()} for k, d in instants.items()}
    if r.violations or r.errors or not r.completed:
        out["cex"] = tlc.counterexample(r.stdout)[-4:]
        out["tail"] = r.stdout[-1500:]
    import shutil
    shutil.rmtree(wd, ignore_errors=True)
    return out


def model_configs(tier):
    C = [c for c in factory_cfg.families(tier) if supported(c)]
    if tier == "quick":
        # two sources + multi-worker machine + fleet + machine: ~70 000 states per configuration over all interleavings;
        # kept for the thorough tier
        C = [c for c in C if not c["family"].startswith("2S-B-M-F-M-B-K")]
        # endless sources (constant inter-arrival time: constructs, repository test scenarios) are unrolled to the horizon;
        # the fastest of them (one item per tick, or two free-running non-blocking sources) take minutes: thorough tier
        def heavy(c):
            srcs = [n for n in c["nodes"] if n["type"] == "source" and isinstance(n["iat"], dict)]
            return (any(n["iat"]["const"] <= 1 for n in srcs) or len(srcs) >= 2
                    or (c.get("via") == "chain" and c["chain"]["count"] >= 5))
        C = [c for c in C if not heavy(c)]
    if tier != "quick":
        import random
        rng = random.Random("factory-model")
        C += [c for c in (factory_cfg.random_config(rng, i) for i in range(400)) if supported(c)]
    # zero-time bursts through combiner/splitter lines (every delay 0) have a factorial number of same-instant
    # interleavings: they are run on the real classes and judged by leg C, but kept out of the exhaustive model runs
    def burst(c):
        if not any(n["type"] in ("combiner", "splitter") for n in c["nodes"]):
            return False
        srcs = [n for n in c["nodes"] if n["type"] == "source"]
        return sum(1 for n in srcs if not isinstance(n["iat"], dict) and sum(list(n["iat"])[:5]) == 0) >= 2
    C = [c for c in C if not burst(c)]
    if tier == "quick":
        # the quick tier keeps a sample of the families whose graphs are large; the thorough tier keeps all
        keep, seen = [], {}
        for c in C:
            fam = c["family"]
            seen[fam] = seen.get(fam, 0) + 1
            if fam in ("combiner-splitter", "fan-in-out", "S(pallet)-B-Sp-B-K", "fan-out/simultaneous-workers") and seen[fam] > 6:
                continue
            keep.append(c)
        C = keep
    # keep the input finite and small: at most 5 items per source, horizon 60 ticks
    out = []
    for c in C:
        c = dict(c)
        c["nodes"] = [dict(n, iat=list(n["iat"])[:5]) if n["type"] == "source" and not isinstance(n["iat"], dict) else n
                      for n in c["nodes"]]
        out.append(c)
    return out


def leg_a(tier):
    p = os.path.join(common.cache_dir("legA"), "factory-%s-%s-%s.json" % (tier, common.spec_hash(), common.harness_hash()))
    res = common.load_json(p)
    if res is not None:
        return res
    C = model_configs(tier)
    nb = max(1, (len(C) + 15) // 16)       # small batches: TLC re-evaluates the configuration literal on every access
    batches = [C[i::nb] for i in range(nb)]
    with mp.Pool(3) as pool:
        outs = pool.map(_one, [("b%02d" % i, b, 60, 600) for i, b in enumerate(batches) if b])
        # a batch that did not finish in time holds a configuration whose same-instant interleavings explode: run its
        # members one by one with a short limit and set aside (and name) those that do not finish
        retry = []
        for o, b in zip(list(outs), [b for b in batches if b]):
            if o.get("timed_out"):
                outs.remove(o)
                retry += [("%s_%s" % (o["name"], c["name"]), [c], 60, 120) for c in b]
        if retry:
            outs += pool.map(_one, retry)
    res = {}
    for o in outs:
        if o.get("timed_out"):
            o["skipped"] = True          # not a failure of the design and not of the machinery: exploration budget
        res[o["name"]] = o
    common.save_json(p, res)
    return res


MAXT = 60


def conformance(tier):
    """Leg B for factories: run every model configuration on the REAL classes to the model's horizon and check that the
    observed outcome (counters of every node, items in every edge) is one of the outcomes TLC found for the design.
    A mismatch is DRIFT (reported in the evidence), not a verdict."""
    la = leg_a(tier)
    p = os.path.join(common.cache_dir("factory_conf"), "%s-%s-%s-%s.json" % (tier, common.spec_hash(), common.harness_hash(), common.src_hash()))
    res = common.load_json(p)
    if res is not None:
        return res
    os.environ["FACTORYSIMPY_VERIF"] = "1"
    from . import factory_driver
    allowed = {}
    instants = {}
    for r in la.values():
        allowed.update(r.get("outcomes", {}))
        instants.update(r.get("instants", {}))
    C = model_configs(tier)
    checked = matched = 0
    inst_checked = inst_matched = 0
    drift = []
    import json as _json, random as _random
    jobs = []
    for c in C:
        if c["name"] not in allowed:
            continue
        # a RANDOM policy: whatever the seeded generator picks must be one of the model's behaviours -- several seeds
        rseeds = [11, 12, 13, 14] if '"RANDOM"' in _json.dumps(c["nodes"]) else [None]
        jobs += [(c, rs, 0) for rs in rseeds]
        # the design has no absolute clock: the same factory started in an Environment whose initial_time is not zero must
        # (relative to its start) end every instant in a state of the same model
        if len(jobs) % 4 == 0 or any(n.get("setup") for n in c["nodes"]):
            jobs.append((c, rseeds[0], 13))
    for c, rs, t0 in jobs:
        c2 = dict(c, T=MAXT + 0.5, t0=t0)
        if rs is not None:
            _random.seed(rs)
        tr = factory_driver.run_config(c2)
        if tr["outcome"] != "ok":
            drift.append({"config": c["name"], "family": c["family"], "real": tr["outcome"] + " " + tr.get("err", ""), "model": allowed[c["name"]][:3]})
            checked += 1
            continue
        fin = tr["ev"][-1]
        eoi = [e for e in tr["ev"] if e["k"] == "eoi"][-1]
        flat = []
        tsum = {}
        inst_bad = None
        for e in tr["ev"]:
            if e["k"] == "get" and e["res"] == "item" and c["nodes"][e["n"]]["type"] == "sink":
                tsum[e["n"]] = tsum.get(e["n"], 0) + e["t"]
            if e["k"] == "eoi" and c["name"] in instants and e["t"] <= MAXT and float(e["t"]).is_integer():
                # the same figures at the end of every instant of the real run: one of the model's end-of-instant states
                fl = []
                for i, n in enumerate(e["nodes"]):
                    fl += [n["gen"], n["disc"], n["proc"], n["recv"], tsum.get(i, 0)]
                for x in e["edges"]:
                    fl.append(len(x["tr"]) + len(x["rd"]))
                k2 = ",".join(str(x) for x in fl)
                inst_checked += 1
                if k2 in instants[c["name"]].get(str(int(e["t"])), []):
                    inst_matched += 1
                elif inst_bad is None:
                    inst_bad = {"config": c["name"], "family": c["family"], "instant": e["t"], "real": k2,
                                "model": instants[c["name"]].get(str(int(e["t"])), [])[:3]}
        if inst_bad is not None:
            drift.append(inst_bad)
        for i, n in enumerate(fin["nodes"]):
            flat += [n["gen"], n["disc"], n["proc"], n["recv"], tsum.get(i, 0)]
        for e in eoi["edges"]:
            flat.append(len(e["tr"]) + len(e["rd"]))
        key = ",".join(str(x) for x in flat)
        checked += 1
        if key in allowed[c["name"]]:
            matched += 1
        else:
            drift.append({"config": c["name"], "family": c["family"], "real": key, "model": allowed[c["name"]][:3]})
    res = {"checked": checked, "matched": matched, "drift": drift[:10], "ndrift": len(drift),
           "instants_checked": inst_checked, "instants_matched": inst_matched,
           "model_outcome_sets": {"total": len(allowed), "with_more_than_one_outcome": sum(1 for v in allowed.values() if len(v) > 1)}}
    common.save_json(p, res)
    return res
