"""C19: the same model with the same parameters and seed run twice -- in one interpreter and in fresh interpreter
processes with different hash seeds and heap layouts -- gives identical logs and statistics; time is monotone.
The comparison is made by TLC on pairs of logs (spec/Trace_Determinism.tla, self-composition)."""
import json, os, random, subprocess, sys, time
from . import common, tlc, tracecheck

PROPS = ["C19"]
CLAUSES = (["T_C19_SameLength", "T_C19_Same", "T_C19_SameOutcome"], ["T_C19_TimeMonotone"])


def sample_configs(tier, seed):
    from . import factory_cfg
    fam = [c for c in factory_cfg.families(tier) if c.get("expect") == "valid"]
    rng = random.Random("det-%d" % seed)
    pick = []
    # every configuration with a RANDOM policy, every conveyor / fleet / combiner line, machines with several workers
    for c in fam:
        txt = json.dumps(c)
        if "RANDOM" in txt or "conveyor" in txt or "slotted" in txt or "fleet" in txt or "combiner" in txt or '"wc": 2' in txt \
                or '"wc": 3' in txt:
            pick.append(c)
    rest = [c for c in fam if c not in pick]
    rng.shuffle(rest)
    pick += rest[:20]
    pick += [factory_cfg.random_config(rng, 9000 + i) for i in range(30 if tier == "quick" else 400)]
    if tier == "quick":
        rng.shuffle(pick)
        pick = pick[:70]
    return pick


def _spawn(cfgs, wd, tag, hashseed, rseed, garbage):
    inp = os.path.join(wd, "cfgs.json")
    out = os.path.join(wd, "out_%s.json" % tag)
    env = dict(os.environ)
    env["PYTHONHASHSEED"] = str(hashseed)
    env["FACTORYSIMPY_VERIF"] = "1"
    p = subprocess.Popen([sys.executable, "-m", "fsverif.det_worker", inp, out, str(rseed), str(garbage)], cwd=common.VERIF, env=env,
                         stdout=subprocess.DEVNULL, stderr=subprocess.PIPE)
    return p, out


def _tlc_chunk(args):
    i, pairs = args
    viol, r = tracecheck.check_batch("Trace_Determinism", pairs, CLAUSES[0], CLAUSES[1], workers=4, timeout=1200, tag="det%d" % i)
    return viol, r.as_dict()


def run(prop, tier, seed):
    t0 = time.time()
    key = "%s-%s-%s-%s-%s" % (common.src_hash(), common.harness_hash(), common.spec_hash(), tier, seed)
    wd = common.cache_dir("det", key)
    resp = os.path.join(wd, "result.json")
    res = common.load_json(resp)
    if res is None:
        cfgs = sample_configs(tier, seed)
        common.save_json(os.path.join(wd, "cfgs.json"), cfgs)
        rseed = 1234 + seed
        # in this interpreter, twice
        os.environ["FACTORYSIMPY_VERIF"] = "1"
        from . import factory_driver, factory_engine
        runs = {"same1": [], "same2": []}
        for name in ("same1", "same2"):
            for c in cfgs:
                random.seed(rseed)
                tr = factory_engine.to_tlc(factory_driver.run_config(c))
                tr.pop("orig", None)
                runs[name].append(tr)
        procs = [_spawn(cfgs, wd, "h0", 0, rseed, 0), _spawn(cfgs, wd, "h1", 1, rseed, 50000),
                 _spawn(cfgs, wd, "hr", "random", rseed, 333333), _spawn(cfgs, wd, "h7", 7777, rseed, 17)]
        mach = []
        for (p, out), tag in zip(procs, ("h0", "h1", "hr", "h7")):
            err = p.communicate()[1]
            if p.returncode != 0:
                mach.append("worker %s failed: %s" % (tag, err.decode(errors="replace")[-300:]))
            else:
                runs[tag] = common.load_json(out)
        pairs = []
        for tag in ("same2", "h0", "h1", "hr", "h7"):
            if tag not in runs:
                continue
            for a, b in zip(runs["same1"], runs[tag]):
                pairs.append({"name": a["name"], "family": a["family"], "other": tag, "ev": a["ev"], "evb": b["ev"],
                              "outcome": a["outcome"], "outcomeb": b["outcome"]})
        # TLC deserialises a whole batch before it starts: keep the batches small and run them side by side
        chunk = 200
        chunks = [pairs[i:i + chunk] for i in range(0, len(pairs), chunk)]
        import multiprocessing as mp
        with mp.Pool(4) as pool:
            outs = pool.map(_tlc_chunk, [(i, c) for i, c in enumerate(chunks)])
        viol = []
        r = None
        for i, (v, rr) in enumerate(outs):
            for x in v:
                x["tid"] += i * chunk
            viol += v
            if r is None or not rr["completed"] or rr["errors"]:
                r = rr
        class _R:      # noqa
            pass
        rr_ = _R()
        rr_.completed = all(o[1]["completed"] for o in outs)
        rr_.errors = [e for o in outs for e in o[1]["errors"]]
        rr_.stdout = ""
        rr_.as_dict = lambda: {"completed": rr_.completed, "errors": rr_.errors[:3], "batches": len(outs),
                               "generated": sum(o[1]["generated"] for o in outs), "wall": round(sum(o[1]["wall"] for o in outs), 1)}
        r = rr_
        vs = []
        seen = set()
        for v in viol:
            pr = pairs[v["tid"] - 1]
            k = (v["clause"], pr["name"], pr["other"])
            if k in seen:
                continue
            seen.add(k)
            l = v["l"]
            vs.append({"clause": v["clause"], "engine": "determinism", "config": pr["name"], "family": pr["family"], "other_run": pr["other"],
                       "step": l, "a": pr["ev"][l - 1] if 0 < l <= len(pr["ev"]) else None,
                       "b": pr["evb"][l - 1] if 0 < l <= len(pr["evb"]) else None})
        if not r.completed or r.errors:
            mach.append("TLC did not complete: %s %s" % (r.errors[:1], r.stdout[-500:]))
        res = {"violations": vs[:20], "mach": mach, "pairs": len(pairs), "configs": len(cfgs), "events": sum(len(p["ev"]) for p in pairs),
               "tlc": r.as_dict(),
               "samples": [{"config": p["name"], "family": p["family"], "compared_with": p["other"], "events": len(p["ev"]),
                            "first": [e["k"] + "@%d" % e["t"] for e in p["ev"][:10]]} for p in pairs[:3]]}
        common.save_json(resp, res)
    coverage = {"evaluations": res["pairs"], "distinct_nontrivial": res["configs"],
                "rule": "each sampled configuration (all families with RANDOM policies, conveyors, fleets, combiners, multi-worker "
                        "machines + seeded random ones) is run twice in one interpreter and once in four fresh interpreter "
                        "processes (PYTHONHASHSEED 0, 1, random, 7777; 0 to 333333 pre-allocated objects); every pair of logs "
                        "is compared event by event by TLC (Trace_Determinism.tla); distinct = configurations",
                "samples": res["samples"], "events_compared": res["events"], "pairs": res["pairs"], "exhaustive": False,
                "tlc": res["tlc"]}
    assumptions = ["hash seeds and heap layouts are sampled, not enumerated", "the random seed is set with random.seed() by the harness",
                   "the log compared is the harness's observation (calls, counters, snapshots, final statistics), not library stdout"]
    return {"violations": res["violations"], "machinery_errors": res["mach"], "level": "exploration", "coverage": coverage,
            "assumptions": assumptions, "summary": "%d configurations, %d pairs of runs compared by TLC" % (res["configs"], res["pairs"])}


def replay(prop, path):
    print("re-run the check; the configuration is named in the replay file")
    return 2
