"""Factory engine (serves C03, C08, C09, C10, C15, C16, C17, C18, C20).

leg B  configurations (systematic families + seeded random ones) are built from the REAL classes and run
       under the traced kernel (factory_driver)                                   [cached by source hash]
leg C  TLC evaluates the T_Cnn_* clauses of spec/Trace_Factory.tla on every recorded run
leg A  TLC on spec/Factory.tla (all same-instant interleavings)                   [cached by spec hash]
"""
import json, os, time, multiprocessing as mp
from . import common, tlc, tracecheck

T_FACTORY = {
    "C03": (["T_C03_EdgeContents", "T_C03_PalletContents", "T_C03_NodeRefs", "T_C03_Counts", "T_C03_Quiescent"],
            ["T_C03_PutFromHolder", "T_C03_GetFromEdge"]),
    "C08": (["T_C08_Cap", "T_C08_DrawnAtPull", "T_C08_OfferedWhenDue", "T_C08_HeldOnlyIfFull", "T_C08_AfterSetup"], ["T_C08_Offer", "T_C08_DrawOnce"]),
    "C09": (["T_C09_BlockingNoDiscard", "T_C09_NonBlockingNow"], ["T_C09_Decision", "T_C09_DiscardByOne"]),
    "C10": (["T_C10_GrantedUsed", "T_C10_NoOrphan", "T_C10_ChooseOne", "T_C10_TakeInput", "T_C10_PushOutput"], []),
    "C15": (["T_C15_Recorded"], ["T_C15_FirstAvail", "T_C15_InPolicy", "T_C15_OutPolicy", "T_C15_PutWhereOffered"]),
    "C16": ([], ["T_C16_Recipe", "T_C16_SplitterEmits", "T_C16_SplitterDone"]),
    "C17": (["T_C17_NonNeg", "T_C17_SumT", "T_C17_Setup", "T_C17_SetupPartial", "T_C17_Finalises", "T_C17_Truth"], []),
    "C18": (["T_C18_Counters", "T_C18_CountersEOI", "T_C18_AvgOccupancy", "T_C18_AvgOccupancyMid", "T_C18_CycleTime", "T_C18_Monotone", "T_C18_CreationStamp"],
            ["T_C18_CounterEvents"]),
    "C20": (["T_C20_NoCrash", "T_C20_FiniteInstant", "T_C20_Rejects"], []),
}
WF = (["T_WF"], ["T_TimeMonotone"])
FACTORY_PROPS = list(T_FACTORY)


def _pol(p):
    if isinstance(p, dict):
        return "SCRIPT", 0
    if isinstance(p, int):
        return "CONST", p
    return p, 0


def _intish(x, scale=1):
    v = x * scale
    r = int(round(v))
    return r, abs(v - r) > 1e-6


def to_tlc(tr):
    """Normalise one recorded run for Trace_Factory.tla (1-based indices, integers only)."""
    cfg = tr["cfg"]
    nodes = []
    for i, n in enumerate(cfg["nodes"]):
        ins = [j + 1 for j, e in enumerate(cfg["edges"]) if e["dst"] == i]
        outs = [j + 1 for j, e in enumerate(cfg["edges"]) if e["src"] == i]
        pi, ci = _pol(n.get("policy_in", "FIRST_AVAILABLE"))
        po, co = _pol(n.get("policy_out", "FIRST_AVAILABLE"))
        nodes.append({"type": n["type"], "blocking": bool(n.get("blocking", True)), "wc": n.get("wc", 1),
                      "setup": n.get("setup", 0) if n["type"] != "source" else 0, "ins": ins, "outs": outs,
                      "policy_in": pi, "const_in": ci, "policy_out": po, "const_out": co,
                      "recipe": list(n.get("recipe", [1]))})
    edges = [{"type": e["type"], "cap": e.get("cap", 1)} for e in cfg["edges"]]
    T = cfg["T"]
    t0 = cfg.get("t0", 0)        # initial_time of the environment (ticks); event times are relative to it
    offgrid = bool(tr.get("offgrid"))
    evs = []
    for ev in tr["ev"]:
        k = ev["k"]
        o = {"k": k, "t": ev["t"]}
        if k in ("rp", "rg", "put", "get", "cp", "cg", "canput", "canget"):
            o.update(e=ev["e"] + 1, n=ev["n"] + 1, pid=ev["pid"], role=ev["role"], tok=ev.get("tok", 0), it=ev.get("it", 0),
                     res=str(ev["res"]), step=ev.get("step", 0), g=ev.get("g", 0),
                     batch=[[b[0] + 1, b[1], b[2]] for b in ev.get("batch", [])], pal=ev.get("pal", []))
            if k == "canget":
                o["k"] = "canget"
        elif k == "new":
            o.update(it=ev["it"], n=ev["n"] + 1, pal=ev["pal"])
        elif k == "ctr":
            o.update(n=ev["n"] + 1, key=ev["key"], val=ev["val"], old=ev["old"], it=ev["it"], pid=ev["pid"])
        elif k == "draw":
            if ev["n"] < 0:
                continue            # buffer delay draws are not used by the factory clauses
            o.update(n=ev["n"] + 1, what=ev["what"], val=ev["val"])
        elif k == "sel":
            o.update(n=ev["n"] + 1, side=ev["side"], val=ev["val"])
        elif k == "eoi":
            o.update(edges=[{"tr": x["tr"], "rd": x["rd"]} for x in ev["edges"]],
                     nodes=[{"gen": x["gen"], "disc": x["disc"], "proc": x["proc"], "recv": x["recv"], "refs": x["refs"]}
                            for x in ev["nodes"]],
                     toks=ev["toks"], pal=ev["pal"])
        elif k == "final":
            ns = []
            for x in ev["nodes"]:
                st = {}
                for kk, v in x["states"].items():
                    st[kk], og = _intish(v)
                    offgrid |= og
                occ = []
                for v in x["occ"]:
                    r, og = _intish(v)
                    occ.append(r)
                    offgrid |= og
                cyc, og = _intish(x["cyc"]) if x["cyc"] >= 0 else (-1, False)
                offgrid |= og
                ns.append({"states": st, "occ": occ, "cyc": cyc, "sel_in": x["sel_in"], "sel_out": x["sel_out"],
                           "gen": x["gen"], "disc": x["disc"], "proc": x["proc"], "recv": x["recv"], "err": x["err"]})
            es = []
            for x in ev["edges"]:
                a = x["avg"]
                es.append({"avgTS": int(round(a * (T + t0) * 1000)) if a is not None and a >= 0 else -1, "err": x["err"]})
            its = []
            for x in ev["items"]:
                d = {}
                for kk in ("cr", "en", "ex"):
                    d[kk], og = _intish(x[kk]) if x[kk] >= 0 else (-1, False)
                    offgrid |= og
                its.append(d)
            o.update(nodes=ns, edges=es, items=its)
        elif k == "mid":
            o.update(edges=[{"avgTS": int(round(x["avg"] * (ev["t"] + t0) * 1000)) if x["avg"] is not None and x["avg"] >= 0 else -1,
                             "err": x["err"]} for x in ev["edges"]])
        elif k in ("exc", "livelock", "harness_error"):
            o["k"] = k
        else:
            continue
        evs.append(o)
    quiescent = bool(cfg.get("drains")) and tr["outcome"] == "ok" and bool(tr.get("quiet_end"))
    return {"cfg": {"nodes": nodes, "edges": edges, "T": T, "T0": t0}, "ev": evs, "name": cfg.get("name", ""),
            "expect": cfg.get("expect", "valid"), "outcome": tr["outcome"], "maxi": tr.get("max_events_per_instant", 0),
            "bound": 200 * (len(nodes) + len(edges)), "quiescent": quiescent, "offgrid": offgrid,
            "family": cfg.get("family", ""), "err": tr.get("err", ""), "orig": json.dumps(cfg)}


def _run_chunk(args):
    cfgs, out = args
    os.environ["FACTORYSIMPY_VERIF"] = "1"
    from . import factory_driver
    res = []
    for c in cfgs:
        try:
            tr = factory_driver.run_config(c)
        except BaseException as ex:   # noqa  harness failure
            tr = {"cfg": c, "ev": [], "outcome": "harness_failure", "err": "%s: %s" % (type(ex).__name__, ex)}
        res.append(to_tlc(tr))
    common.save_json(out, res)
    return [(r["name"], r["outcome"], r["expect"], len(r["ev"]), r["err"][:120]) for r in res]


def corpus(tier, seed):
    from . import factory_cfg
    key = "%s-%s-%s-%s" % (common.src_hash(), common.harness_hash(), tier, seed)
    d = common.cache_dir("factory_corpus", key)
    stp = os.path.join(d, "stats.json")
    st = common.load_json(stp)
    if st is not None:
        return d, st
    t0 = time.time()
    C = factory_cfg.all_configs(tier, seed)
    nchunk = 12 if tier == "quick" else 48
    chunks = [C[i::nchunk] for i in range(nchunk)]
    with mp.Pool(12) as pool:
        outs = pool.map(_run_chunk, [(ch, os.path.join(d, "runs_%02d.json" % i)) for i, ch in enumerate(chunks)])
    runs = [r for o in outs for r in o]
    st = {"runs": len(runs), "outcomes": {}, "wall": round(time.time() - t0, 1), "events": sum(r[3] for r in runs),
          "non_ok": [r for r in runs if r[1] != "ok"][:60]}
    for r in runs:
        st["outcomes"][r[1] + "/" + r[2]] = st["outcomes"].get(r[1] + "/" + r[2], 0) + 1
    common.save_json(stp, st)
    return d, st


def _legC_one(args):
    fname, d = args
    traces = common.load_json(os.path.join(d, fname))
    invs, props = [], []
    for k, (i, p) in T_FACTORY.items():
        invs += i
        props += p
    invs += WF[0]
    props += WF[1]
    viol, r = tracecheck.check_batch("Trace_Factory", traces, invs, props, workers=4, timeout=1800, tag=fname)
    out = {"file": fname, "tlc": r.as_dict(), "violations": viol, "traces": len(traces),
           "events": sum(len(t["ev"]) for t in traces)}
    if not r.completed or r.errors:
        out["tail"] = r.stdout[-2500:]
    return out


def leg_c(d):
    p = os.path.join(d, "legC-%s.json" % common.spec_hash())
    res = common.load_json(p)
    if res is not None:
        return res
    files = sorted(f for f in os.listdir(d) if f.startswith("runs_") and f.endswith(".json"))
    with mp.Pool(4) as pool:
        outs = pool.map(_legC_one, [(f, d) for f in files])
    res = {o["file"]: o for o in outs}
    common.save_json(p, res)
    return res


def clause_property(clause):
    for prop, (i, p) in T_FACTORY.items():
        if clause in i or clause in p:
            return prop
    if clause in WF[0] or clause in WF[1]:
        return "WF"
    return None
