"""Run factory configurations in THIS interpreter process and dump the normalised traces.
usage: python -m fsverif.det_worker <configs.json> <out.json> <random-seed> <garbage-count>"""
import json, os, random, sys


def main():
    cfgs = json.load(open(sys.argv[1]))
    seed = int(sys.argv[3])
    garbage = [object() for _ in range(int(sys.argv[4]))]      # perturbs the heap layout, hence id() values
    os.environ["FACTORYSIMPY_VERIF"] = "1"
    from . import factory_driver, factory_engine
    out = []
    for c in cfgs:
        random.seed(seed)
        tr = factory_engine.to_tlc(factory_driver.run_config(c))
        tr.pop("orig", None)
        out.append(tr)
    json.dump(out, open(sys.argv[2], "w"))
    del garbage


if __name__ == "__main__":
    main()
