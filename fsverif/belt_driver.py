"""Belt engine, implementation side: drive the REAL conveyor edges (continuous and slotted, accumulating
or not) with a scripted producer and a scripted consumer and record, in ticks, when each item was
requested, admitted (space reservation granted), entered, offered at the exit and taken.

The producer asks for space at scripted instants and puts the item in the instant the reservation is
granted.  The consumer either takes every item in the instant it is offered (standing reservation), or
lets the head wait `s` ticks unreserved and then reserves and takes in one instant (a stall of s ticks).
Everything is done from kernel callbacks (no active process), observation happens after every kernel
event through TracedEnvironment.on_step.
"""
import os
from .tracer import TracedEnvironment, quiet
from .store_driver import FlowItem


def make_conveyor(env, cfg, Q):
    if cfg["type"] == "conveyor":
        from factorysimpy.edges.continuous_conveyor import ConveyorBelt
        c = ConveyorBelt(env, "C", conveyor_length=cfg["cap"], speed=float(Q) / cfg["slot"], item_length=1,
                         accumulating=cfg["acc"])
    else:
        from factorysimpy.edges.slotted_conveyor import ConveyorBelt
        c = ConveyorBelt(env, "C", capacity=cfg["cap"], delay=cfg["slot"] / float(Q), accumulating=cfg["acc"])
    c.src_node = c.dest_node = object()
    return c


def run_belt(cfg):
    """cfg: {type, cap, slot, acc, Q, T, arrivals:[ticks], service:[ticks or -1 = standing reservation]}"""
    Q = cfg.get("Q", 4)
    T = cfg["T"]
    ev = []
    out = {"cfg": {k: cfg[k] for k in ("type", "cap", "slot", "acc", "T")}, "name": cfg.get("name", ""), "ev": ev,
           "outcome": "ok", "err": ""}
    with quiet():
        env = TracedEnvironment()
        try:
            conv = make_conveyor(env, cfg, Q)
        except BaseException as ex:  # noqa
            out["outcome"] = "rejected_at_build"
            out["err"] = "%s: %s" % (type(ex).__name__, ex)
            return out
        items = {}
        state = {"offered": set(), "taken": set(), "granted": set(), "entered": set(), "standing": None, "busy": False,
                 "pending": [], "nserv": 0}
        service = cfg.get("service", [-1])

        def tick():
            return int(round(env.now * Q))

        def log(k, it=0, **kw):
            d = {"k": k, "t": tick(), "it": it, "n": len(conv.belt.items) + len(conv.belt.ready_items),
                 "rd": len(conv.belt.ready_items), "gg": len(conv.belt.reservations_get), "gp": len(conv.belt.reservations_put)}
            d.update(kw)
            ev.append(d)

        def request(gid):
            it = FlowItem(gid, 0)
            items[gid] = it
            tok = conv.reserve_put()
            log("req", gid)
            state["pending"].append((gid, tok))

            def on_grant(_e, gid=gid, tok=tok):
                conv.put(tok, items[gid])
                state["entered"].add(gid)
                log("enter", gid)
            tok.callbacks.append(on_grant)

        def take_now():
            tok = conv.reserve_get()

            def on_grant(_e, tok=tok):
                x = conv.get(tok)
                state["taken"].add(x.gid)
                state["busy"] = False
                log("take", x.gid)
            tok.callbacks.append(on_grant)

        def standing():
            """consumer mode -1: a reservation is always outstanding; take in the instant of the grant"""
            tok = conv.reserve_get()
            state["standing"] = tok

            def on_grant(_e, tok=tok):
                x = conv.get(tok)
                state["taken"].add(x.gid)
                log("take", x.gid)
                state["nserv"] += 1
                nxt = service[state["nserv"] % len(service)]
                state["standing"] = None
                if nxt < 0:
                    standing()
            tok.callbacks.append(on_grant)

        def observe(_env):
            # grants of space reservations
            for gid, tok in state["pending"]:
                if tok.triggered and gid not in state["granted"]:
                    state["granted"].add(gid)
                    log("grant", gid)
            state["pending"] = [(g, t) for g, t in state["pending"] if g not in state["entered"]]
            # offers
            for x in conv.belt.ready_items:
                if x.gid not in state["offered"]:
                    state["offered"].add(x.gid)
                    log("offer", x.gid)
                    s = service[state["nserv"] % len(service)]
                    if s >= 0 and state["standing"] is None and not state["busy"]:
                        state["busy"] = True
                        state["nserv"] += 1
                        env.urgent(take_after(s), s / float(Q)) if s > 0 else take_now()

        def take_after(s):
            def fn():
                take_now()
                nxt = service[state["nserv"] % len(service)]
                if nxt < 0 and state["standing"] is None:
                    pass
            return fn

        env.on_step = observe
        arrivals = list(cfg["arrivals"])
        # "holders": a second upstream party that reserves space at `at`, never puts, and withdraws the (pending or
        # granted) reservation at `cancel` -- what a FIRST_AVAILABLE node does with the edges it does not choose
        for k, h in enumerate(cfg.get("holders", [])):
            gid = len(arrivals) + 1 + k

            def hold(gid=gid, h=h):
                tok = conv.reserve_put()
                log("req", gid)
                state["pending"].append((gid, tok))

                def withdraw(tok=tok, gid=gid):
                    conv.belt.reserve_put_cancel(tok)
                    state["entered"].add(gid)          # no longer pending
                    log("cancel", gid)
                env.urgent(withdraw, (h["cancel"] - h["at"]) / float(Q))
            env.urgent(hold, h["at"] / float(Q))
        if cfg.get("concurrent"):
            # several producers: every request is issued at its scripted instant, whatever the others do
            for i, a in enumerate(arrivals):
                env.urgent((lambda g=i + 1: request(g)), a / float(Q))
        else:
            # one producer (like a source or a single-worker machine): the next request is issued at its
            # scripted instant or, if the previous item has not entered yet, in the instant it enters
            def producer():
                for i, a in enumerate(arrivals):
                    gid = i + 1
                    d = a / float(Q) - env.now
                    if d > 0:
                        yield env.timeout(d)
                    it = FlowItem(gid, 0)
                    if cfg.get("prestamp"):
                        # the item has ridden another conveyor before (two conveyors in series, a rework loop): it carries
                        # that ride's entry / exit stamps
                        it.conveyor_entry_time = env.now - 3 * cfg["slot"] / float(Q)
                        it.conveyor_exit_time = env.now
                    items[gid] = it
                    tok = conv.reserve_put()
                    log("req", gid)
                    state["pending"].append((gid, tok))
                    yield tok
                    conv.put(tok, it)
                    state["entered"].add(gid)
                    log("enter", gid)
                    yield env.timeout(0)      # like a source: at least one kernel hop between two items
            env.process(producer())
        if service[0] < 0:
            env.urgent(standing, 0)
        Tt = T / float(Q)
        try:
            last = None
            while env.peek() < Tt:
                env.step()
                if env.instant_over():
                    # after a waiting head was taken the next offered item may already wait
                    if not state["busy"] and state["standing"] is None:
                        waiting = [x for x in conv.belt.ready_items if x.gid not in state["taken"]]
                        if waiting:
                            s = service[state["nserv"] % len(service)]
                            if s >= 0:
                                state["busy"] = True
                                state["nserv"] += 1
                                if s > 0:
                                    env.urgent(take_after(s), s / float(Q))
                                else:
                                    take_now()
                                continue
                            else:
                                standing()
                                continue
                    log("eoi", state=str(conv.state))
                if env.events_this_instant > 5000:
                    out["outcome"] = "livelock"
                    break
        except BaseException as ex:  # noqa
            out["outcome"] = "exception"
            out["err"] = "%s: %s" % (type(ex).__name__, str(ex)[:160])
    return out
