"""Leg C with hidden state (Trace_StoreBind.tla): TLC infers which item each granted retrieval is bound to."""
import json, os, re, multiprocessing as mp
from . import common, tlc

_RE_REJ = re.compile(r'<<"REJECTED", (\d+), (\d+)>>')


def _has_get_activity(tr):
    return any(e["k"] == "c" and e["op"] in ("rg", "get", "cg") for e in tr["ev"])


def _one(args):
    fname, d, maxtr = args
    traces = [t for t in common.load_json(os.path.join(d, fname)) if _has_get_activity(t)]
    if maxtr and len(traces) > maxtr:
        step = len(traces) / float(maxtr)
        traces = [traces[int(i * step)] for i in range(maxtr)]
    wd = os.path.join(tlc.CACHE, "tc", "bind-%d-%s" % (os.getpid(), fname))
    os.makedirs(wd, exist_ok=True)
    tf = os.path.join(wd, "traces.json")
    with open(tf, "w") as f:
        json.dump(traces, f)
    cfg = "INIT BInit\nNEXT BNext\nCONSTRAINT HighWater\nPOSTCONDITION Accepted\nCHECK_DEADLOCK FALSE\n"
    r = tlc.run_tlc("Trace_StoreBind", cfg, workers=1, timeout=1800, env_extra={"TRACE_FILE": tf},
                    workdir=os.path.join(wd, "tlc"), jvm=("-Xmx4g", "-Xss16m"))
    rej = [(int(a), int(b)) for a, b in _RE_REJ.findall(r.stdout)]
    out = {"file": fname, "tlc": r.as_dict(), "traces": len(traces), "rejected": []}
    for tid, hw in rej:
        tr = traces[tid - 1]
        nxt = tr["ev"][hw] if hw < len(tr["ev"]) else None
        # classify by the event that no choice of bindings explains
        if nxt is not None and nxt["k"] == "c" and nxt["op"] == "get":
            prop, clause = "C06", "T_C06_Discipline"
        else:
            prop, clause = "C02", "T_C02_DistinctBinding"
        out["rejected"].append({"property": prop, "clause": clause, "engine": "store", "component": tr["cfg"]["kind"],
                                "mode": tr["cfg"]["mode"], "corpus_file": fname, "tid": tid, "step": hw + 1,
                                "cfg": tr["cfg"], "events": tr["ev"][:hw + 1], "source": tr.get("src")})
    if not r.completed or r.errors:
        out["tail"] = r.stdout[-1500:]
    return out


def results(d, tier):
    p = os.path.join(d, "bind.json")
    res = common.load_json(p)
    if res is None:
        files = sorted(f for f in os.listdir(d) if f.startswith(("walk_", "rand_", "rbelt_")) and f.endswith(".json"))
        maxtr = 250 if tier == "quick" else 0
        with mp.Pool(8) as pool:
            outs = pool.map(_one, [(f, d, maxtr) for f in files])
        res = {o["file"]: o for o in outs}
        common.save_json(p, res)
    viol, mach, n = [], [], 0
    for f, o in res.items():
        n += o["traces"]
        t = o["tlc"]
        if not t["completed"] or t["timed_out"] or t["errors"]:
            mach.append("binding inference %s: TLC did not complete %s %s" % (f, t["errors"][:1], o.get("tail", "")[-300:]))
        viol += o["rejected"][:3]
    return {"violations": viol, "machinery": mach, "traces": n}
