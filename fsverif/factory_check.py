"""Verdict for the factory-engine properties (C03, C08, C09, C10, C15-C18, C20)."""
import os, re
from . import common, factory_engine as fe

PROPS = fe.FACTORY_PROPS


def _short(e):
    k = e["k"]
    if k in ("rp", "rg", "put", "get", "cp", "cg", "canput"):
        return "%s@%d n%d e%d it%d ->%s" % (k, e["t"], e["n"], e["e"], e["it"], e["res"])
    if k in ("new", "ctr", "draw", "sel"):
        return "%s@%d %s" % (k, e["t"], {x: e[x] for x in e if x not in ("k", "t")})
    return "%s@%d" % (k, e["t"])


def run(prop, tier, seed):
    d, st = fe.corpus(tier, seed)
    lc = fe.leg_c(d)
    from . import factory_model
    la = factory_model.leg_a(tier)
    conf = factory_model.conformance(tier)
    inv, act = fe.T_FACTORY[prop]
    mine = set(inv) | set(act)
    mach, violations = [], []
    ntr = nev = 0
    samples = []
    fams = {}
    for fname, r in sorted(lc.items()):
        ntr += r["traces"]
        nev += r["events"]
        t = r["tlc"]
        if not t["completed"] or t["timed_out"] or t["errors"]:
            mach.append("leg C %s: TLC did not complete %s %s" % (fname, t["errors"][:1], r.get("tail", "")[-400:]))
        seen = set()
        traces = None
        for v in r["violations"]:
            p = fe.clause_property(v["clause"])
            if traces is None and (p == "WF" or v["clause"] in mine):
                traces = common.load_json(os.path.join(d, fname))
            if p == "WF":
                tr = traces[v["tid"] - 1]
                mach.append("malformed trace %s (%s) step %s: %s" % (tr["name"], tr["family"], v["l"], v["clause"]))
            if v["clause"] in mine and (v["clause"], v["tid"]) not in seen:
                seen.add((v["clause"], v["tid"]))
                tr = traces[v["tid"] - 1]
                violations.append({"clause": v["clause"], "engine": "factory", "config": tr["name"], "family": tr["family"],
                                   "step": v["l"], "outcome": tr["outcome"], "err": tr.get("err", ""),
                                   "err_class": tr.get("err", "").split(":")[0] + (":" + tr.get("err", "").split("'")[-2]
                                                                                    if tr.get("err", "").count("'") >= 2 else ""),
                                   # the message up to its first colon, without numbers: what went wrong, not where
                                   "err_msg": re.sub(r"[0-9]+", "#", (tr.get("err", "").split(": ", 1) + [""])[1].split(":")[0])[:60],
                                   "cfg": tr["cfg"], "orig": tr.get("orig"), "expect": tr["expect"],
                                   "events": tr["ev"][max(0, (v["l"] or 0) - 25):(v["l"] or 0)]})
    # one violation per (clause, family) is enough for the report; keep the count
    uniq = {}
    for v in violations:
        uniq.setdefault((v["clause"], v["family"], v["err_class"]), v)
    violations = list(uniq.values())
    f0 = sorted(lc)[0] if lc else None
    if f0:
        trs = common.load_json(os.path.join(d, f0))
        for tr in trs[:3]:
            samples.append({"config": tr["name"], "family": tr["family"], "nodes": [n["type"] for n in tr["cfg"]["nodes"]],
                            "edges": [e["type"] for e in tr["cfg"]["edges"]], "T": tr["cfg"]["T"],
                            "first_events": [_short(e) for e in tr["ev"][:12]]})
    for fname in sorted(lc):
        for tr in common.load_json(os.path.join(d, fname)):
            fams[tr["family"]] = fams.get(tr["family"], 0) + 1
    states = sum(r.get("distinct", 0) for r in la.values())
    trans = sum(r.get("generated", 0) for r in la.values())
    skipped = [n for n, r in la.items() if r.get("skipped")]
    for name, r in la.items():
        if r.get("skipped"):
            continue
        if not r.get("completed") or r.get("errors"):
            mach.append("leg A %s did not complete: %s" % (name, r.get("errors", [])[:1]))
        for kind, invn in r.get("violations", []):
            if invn.split("_")[1] == prop if "_" in invn else False:
                mach.append("design-level violation of %s in Factory.tla config %s (not a verdict by itself)" % (invn, name))
    coverage = {
        "traces_validated_against_impl": ntr, "samples": samples,
        "legC_clauses": sorted(mine), "legC_events_judged": nev, "configurations_run_on_real_classes": st["runs"],
        "outcomes": st["outcomes"], "families": fams,
        "evaluations": nev, "distinct_nontrivial": st["runs"],
        "rule": "every configuration (systematic families x seeded random members) is built from the real classes and run "
                "under the traced kernel; each recorded event is one evaluation of the clauses in TLC; distinct = "
                "configurations",
        "exhaustive": False,
    }
    coverage["legB_model_vs_implementation"] = {
        "what": "every Factory.tla configuration run on the real classes to the model's horizon; the observed outcome (all node "
                "counters, items per edge) must be one of the outcomes TLC found over all same-instant interleavings",
        "configurations": conf["checked"], "outcome_in_model_set": conf["matched"], "drift": conf["ndrift"],
        "end_of_instant_snapshots_compared": conf.get("instants_checked", 0), "snapshots_in_model_set": conf.get("instants_matched", 0),
        "drift_samples": conf["drift"][:3], "model_outcome_sets": conf["model_outcome_sets"]}
    coverage["legA_skipped_exploration_budget"] = skipped
    if states:
        coverage.update(states=states, transitions=trans,
                        legA_configs=[{"config": n, "distinct": r["distinct"], "generated": r["generated"]} for n, r in la.items()])
    assumptions = [
        "configurations are the enumerated families plus seeded random members, not every Python value a user could pass",
        "times are multiples of 1/4 time unit (exact in binary floating point), reported in ticks",
        "instrumentation is outside-in: class-level wrappers on edge/store methods, Environment subclass, counter dict",
        "TLC, the Json/IOUtils modules, SimPy and the ledger fold of Trace_Factory.tla are trusted",
    ]
    summary = "%d configurations on real classes, %d events judged by TLC, legA %d states, model/impl outcome drift %d/%d" % (
        st["runs"], nev, states, conf["ndrift"], conf["checked"])
    return {"violations": violations, "machinery_errors": mach, "level": "model_checking", "coverage": coverage,
            "assumptions": assumptions, "summary": summary}


def replay(prop, path):
    """Re-run the recorded configuration on the current tree and let TLC judge it again."""
    import json
    from . import factory_driver, tracecheck
    v = common.load_json(path)
    if not v or not v.get("orig"):
        print("cannot read", path)
        return 2
    os.environ["FACTORYSIMPY_VERIF"] = "1"
    tr = fe.to_tlc(factory_driver.run_config(json.loads(v["orig"])))
    inv, act = fe.T_FACTORY[prop]
    viol, r = tracecheck.check_batch("Trace_Factory", [tr], inv, act, workers=1, tag="replay")
    if not r.completed or r.errors:
        print(r.stdout[-1500:])
        return 2
    for x in {(x["clause"]) for x in viol}:
        print("replayed: clause %s violated (outcome %s %s)" % (x, tr["outcome"], tr["err"]))
    return 1 if viol else 0
