"""Leg B for stores: drive the REAL store / edge classes along calls chosen from the TLC-exported
graph of spec/Store.tla (or from a random history), project the real object onto the model's state
shape (white box, for conformance) and record the black-box trace that leg C judges.
"""
import json
import simpy
from .tracer import TracedEnvironment, Commander, quiet

TICK = 1.0          # one model tick in simulated time units (exact in binary floating point)


class FlowItem:
    """Stand-in flow item: stores only need identity (+ id, put_time for the filter store)."""

    def __init__(self, gid, tag):
        self.id = "it%d" % gid
        self.gid = gid
        self.tag = tag
        self.length = 1

    def __repr__(self):
        return "It(%d,%d)" % (self.gid, self.tag)


FILTERS = {
    0: None,                         # the store's default age filter
    1: (lambda x: True),
    2: (lambda x: x.tag == 1),
    3: (lambda x: x.tag == 0),
}


class RealStore:
    """One real store (or Buffer / Fleet edge) under harness control."""

    def __init__(self, cfg, nprocs=2, via_edge=True):
        self.cfg = cfg
        kind = cfg["kind"]
        self.kind = kind
        self.env = TracedEnvironment()
        self.edge = None
        self.delay_plan = []       # delays handed to Buffer.put through its delay callable
        self.delay_calls = 0
        with quiet():
            if kind == "prio":
                from factorysimpy.base.reservable_priority_req_store import ReservablePriorityReqStore as S
                self.store = S(self.env, capacity=cfg["cap"])
            elif kind == "plain":
                from factorysimpy.base.reservable_req_store import ReservableReqStore as S
                self.store = S(self.env, capacity=cfg["cap"])
            elif kind == "filter":
                from factorysimpy.base.reservable_priority_req_filter_store import ReservablePriorityReqFilterStore as S
                self.store = S(self.env, capacity=cfg["cap"], trigger_delay=cfg["trig"] * TICK)
            elif kind == "buffer":
                if via_edge:
                    from factorysimpy.edges.buffer import Buffer
                    # the delay source is a callable, or (cfg["delay_kind"] = "generator") a generator object: both are
                    # documented forms of Buffer(delay=...)
                    dsrc = self._delay_gen() if cfg.get("delay_kind") == "generator" else self._next_delay
                    self.edge = Buffer(self.env, "B", capacity=cfg["cap"], delay=dsrc, mode=cfg["mode"])
                    self.edge.src_node = self.edge.dest_node = object()
                    self.store = self.edge.inbuiltstore
                else:
                    from factorysimpy.base.buffer_store import BufferStore
                    self.store = BufferStore(self.env, capacity=cfg["cap"], mode=cfg["mode"])
            elif kind == "fleet":
                if via_edge:
                    from factorysimpy.edges.fleet import Fleet
                    self.edge = Fleet(self.env, "F", capacity=cfg["cap"], delay=cfg["fdelay"] * TICK,
                                      transit_delay=cfg["transit"] * TICK)
                    self.edge.src_node = self.edge.dest_node = object()
                    self.store = self.edge.inbuiltstore
                else:
                    from factorysimpy.base.fleet_store import FleetStore
                    self.store = FleetStore(self.env, capacity=cfg["cap"], delay=cfg["fdelay"] * TICK,
                                            transit_delay=cfg["transit"] * TICK)
            elif kind in ("conveyor", "slotted"):
                # the belt stores behind their conveyor edges (ledger-level clauses only: C01, C02, C05, C07)
                from .belt_driver import make_conveyor
                self.edge = make_conveyor(self.env, {"type": kind, "cap": cfg["cap"], "slot": cfg.get("slot", 2), "acc": cfg.get("acc", 1)}, 1)
                self.store = self.edge.belt
            else:
                raise ValueError(kind)
            self.cmd = Commander(self.env, nprocs)
            self.env.drain_urgent()
        self.api = self.edge if self.edge is not None else self.store
        self.tokens = []           # every token ever issued: dict(ev, gid, kind, owner, prio, flt)
        self.tok_by_ev = {}
        self.items = []            # every item ever put (strong refs)
        self.foreign = None        # token of another store, for ill-formed calls
        self.now = 0               # model time in ticks

    def _next_delay(self):
        self.delay_calls += 1
        return self.delay_plan.pop(0) if self.delay_plan else 0

    def _delay_gen(self):
        while True:
            yield self._next_delay()

    # ------------------------------------------------------------------ projection (white box)
    def _present(self):
        s = self.store
        lists = [s.reserve_put_queue, s.reservations_put, s.reserve_get_queue, s.reservations_get]
        return lists

    def live_tokens(self):
        """Tokens present in one of the four lists, in arrival (issue) order."""
        pres = set()
        for L in self._present():
            for ev in L:
                pres.add(id(ev))
        return [t for t in self.tokens if id(t["ev"]) in pres]

    def inside_items(self):
        s = self.store
        raw = list(s.items) + list(getattr(s, "ready_items", []))
        its = [x[0] if isinstance(x, tuple) else x for x in raw]
        return sorted(its, key=lambda it: it.gid)

    def project(self):
        s = self.store
        env = self.env
        live = self.live_tokens()
        rank = {id(t["ev"]): i + 1 for i, t in enumerate(live)}
        info = {id(t["ev"]): t for t in live}
        inside = self.inside_items()
        irank = {id(it): i + 1 for i, it in enumerate(inside)}
        heap = env.heap_times()

        def tok(ev):
            t = info[id(ev)]
            return {"n": rank[id(ev)], "owner": t["owner"], "prio": t["prio"], "flt": t["flt"]}

        def rem_of_proc(p):
            tg = p.target
            if tg is not None and id(tg) in heap:
                return max(0, int(round((heap[id(tg)] - env.now) / TICK)))
            return 0

        trip_of = {}
        trips = []
        timers = []
        item_rem = {}
        if self.kind == "buffer":
            for p, n, o, t0 in env.live_procs("move_to_ready_items", s):
                fr = p._generator.gi_frame
                if fr is None:
                    continue
                tup = fr.f_locals.get("item")
                if tup is not None:
                    item_rem[id(tup[0])] = rem_of_proc(p)
        if self.kind == "filter":
            for it in inside:
                item_rem[id(it)] = max(0, int(round((it.put_time + s.trigger_delay - env.now) / TICK)))
            ts = set()
            for p, n, o, t0 in env.live_procs("_add_trigger_event", s):
                ts.add(rem_of_proc(p))
            for (t, _p, _e, ev) in env._queue:
                cbs = ev.callbacks or []
                for cb in cbs:
                    if getattr(cb, "__name__", "") == "_trigger_reserve_get" and getattr(cb, "__self__", None) is s:
                        ts.add(max(0, int(round((t - env.now) / TICK))))
            timers = sorted(ts, reverse=False)
        if self.kind == "slotted":
            # slotted belt store: an item is offered cap*slot after it entered; the end of its entry phase (one slot
            # after the put) is an event whose callback is _trigger_reserve_put
            travel = self.cfg["cap"] * self.cfg.get("slot", self.cfg.get("trig", 1)) * TICK
            for x in s.items:
                it = x[0] if isinstance(x, tuple) else x
                item_rem[id(it)] = max(0, int(round((it.conveyor_entry_time + travel - env.now) / TICK)))
            ts = []
            for p, n, o, t0 in env.live_procs("move_to_ready_items", s):
                fr = p._generator.gi_frame
                if fr is None:
                    continue
                ev1 = fr.f_locals.get("event")
                if ev1 is not None and not ev1.triggered:
                    ts.append(rem_of_proc(p))
            for (t, _p, _e, ev) in env._queue:
                for cb in (ev.callbacks or []):
                    if getattr(cb, "__name__", "") == "_trigger_reserve_put" and getattr(cb, "__self__", None) is s:
                        ts.append(max(0, int(round((t - env.now) / TICK))))
            timers = sorted(ts)
        act = {"rem": self.cfg["fdelay"], "armed": False}
        if self.kind == "fleet":
            k = 0
            for p, n, o, t0 in env.live_procs("move_to_ready_items", s):
                fr = p._generator.gi_frame
                if fr is None:
                    continue
                batch = fr.f_locals.get("items") or []
                still = [it for it in batch if any(it is x for x in s.items)]
                if not still:
                    continue
                k += 1
                rem = max(0, int(round((t0 + 2 * s.transit_delay - env.now) / TICK)))
                trips.append(rem)
                for it in still:
                    trip_of[id(it)] = k
            ap = env.live_procs("fleet_activation_process", s)
            rem = 0
            if ap:
                cond = ap[0][0].target
                evs = getattr(cond, "_events", None)
                if evs:
                    to = evs[0]
                    if id(to) in heap:
                        rem = max(0, int(round((heap[id(to)] - env.now) / TICK)))
            act = {"rem": rem, "armed": bool(s.activate_fleet.triggered)}

        def item(x):
            it = x[0] if isinstance(x, tuple) else x
            return {"id": irank[id(it)], "tag": it.tag, "rem": item_rem.get(id(it), 0), "trip": trip_of.get(id(it), 0)}

        st = {
            "putQ": [tok(e) for e in s.reserve_put_queue],
            "putRes": [tok(e) for e in s.reservations_put],
            "getQ": [tok(e) for e in s.reserve_get_queue],
            "getRes": [tok(e) for e in s.reservations_get],
            "resEv": [rank.get(id(e), -1) for e in s.reserved_events],
            "resIt": [irank.get(id(it), -1) for it in getattr(s, "reserved_items", [])],
            "items": [item(x) for x in s.items],
            "ready": [item(x) for x in getattr(s, "ready_items", [])],
            "timers": timers,
            "act": act,
            "trips": trips,
        }
        return st

    # ------------------------------------------------------------------ observation (black box)
    def observe(self):
        """What a user of the API can see: which live tokens are triggered, which items are offered
        as ready (documented attribute / edge method), the edge queries, and whether the current
        instant is over (no kernel event left at `now` that anybody listens to)."""
        s = self.store
        env = self.env
        o = {"trig": [t["gid"] for t in self.tokens if t["state"] == "live" and t["ev"].triggered],
             "ready": [], "cp": 2, "cg": 2, "occ": -1}
        if hasattr(s, "ready_items"):
            o["ready"] = [getattr(x, "gid", -1) for x in s.ready_items]
        if self.edge is not None and self.kind in ("buffer", "fleet"):
            o["cp"] = 1 if self.edge.can_put() else 0
            o["cg"] = 1 if self.edge.can_get() else 0
            if self.kind == "buffer":
                o["occ"] = self.edge.occupancy()
            else:
                o["occ"] = self.edge.get_occupancy()
        elif self.edge is not None:
            try:
                o["occ"] = self.edge.occupancy()
            except NotImplementedError:      # the slotted conveyor does not implement occupancy()
                pass
        q = True
        for (t, _p, _e, ev) in env._queue:
            if t <= env.now and ev.callbacks:
                q = False
                break
        o["q"] = q
        return o

    def blank(self, k):
        return {"k": k, "t": self.now, "op": "", "p": 0, "tok": 0, "it": 0, "tag": 0, "d": 0, "prio": 0, "flt": 1,
                "res": "", "ri": 0, "dr": -1}

    # ------------------------------------------------------------------ calls
    def _new_token(self, ev, kind, owner, prio, flt):
        t = {"ev": ev, "gid": len(self.tokens) + 1, "kind": kind, "owner": owner, "prio": prio, "flt": flt,
             "state": "live"}
        self.tokens.append(t)
        self.tok_by_ev[id(ev)] = t
        return t

    def resolve_token(self, n):
        """canonical number -> token dict; 0 -> a dead token (used/cancelled) or a foreign one."""
        if n == 0:
            dead = [t for t in self.tokens if t["state"] != "live"]
            if dead:
                return dead[-1]
            if self.foreign is None:
                self.foreign = {"ev": self.env.event(), "gid": 0, "kind": "x", "owner": 0, "prio": 0, "flt": 1,
                                "state": "foreign"}
            return self.foreign
        live = self.live_tokens()
        return live[n - 1]

    def call(self, c):
        """Execute model call record c (op,p,n,prio,flt,tag,d) on the real object.
        Returns (event dict for the trace, normalised result)."""
        op = c["op"]
        api = self.api
        ev = self.blank("c")
        ev.update({"op": op, "p": c["p"], "tag": c["tag"], "d": c["d"], "prio": c["prio"],
                   "flt": c["flt"] if c["flt"] in (0, 1, 2, 3) and op == "rg" and self.kind == "filter" else 1})
        hasprio = self.kind in ("prio", "filter") or (self.kind == "fleet" and self.edge is None)
        rapi = api
        if self.cfg.get("prio_api"):
            # belt stores: reservations with a priority are made on the store behind the conveyor edge (the edge's own
            # reserve_put / reserve_get forward without one); items still enter and leave through the edge
            hasprio = True
            rapi = self.store
        with quiet():
            if op == "rp":
                fn = (lambda: rapi.reserve_put(c["prio"])) if hasprio else (lambda: api.reserve_put())
                r = self.cmd.call(c["p"], fn)
                if r[0] == "ret":
                    t = self._new_token(r[1], "put", c["p"], c["prio"] if hasprio else 0, 1)
                    ev["tok"] = t["gid"]
                    ev["res"] = "tok"
                    res = ["tok"]
                else:
                    ev["res"] = type(r[1]).__name__
                    res = [ev["res"]]
            elif op == "rg":
                if self.kind == "filter":
                    f = FILTERS[c["flt"]]
                    fn = lambda: api.reserve_get(c["prio"], f)
                elif hasprio:
                    fn = lambda: rapi.reserve_get(c["prio"])
                else:
                    fn = lambda: api.reserve_get()
                r = self.cmd.call(c["p"], fn)
                if r[0] == "ret":
                    t = self._new_token(r[1], "get", c["p"], c["prio"] if hasprio else 0,
                                        c["flt"] if self.kind == "filter" else 1)
                    ev["tok"] = t["gid"]
                    ev["res"] = "tok"
                    res = ["tok"]
                else:
                    ev["res"] = type(r[1]).__name__
                    res = [ev["res"]]
            elif op == "put":
                t = self.resolve_token(c["n"])
                ev["tok"] = t["gid"]
                it = FlowItem(len(self.items) + 1, c["tag"])
                if self.kind == "buffer":
                    if self.edge is not None:
                        self.delay_plan = [c["d"] * TICK]
                        calls0 = self.delay_calls
                        fn = lambda: api.put(t["ev"], it)
                    else:
                        fn = lambda: api.put(t["ev"], (it, c["d"] * TICK))
                else:
                    fn = lambda: api.put(t["ev"], it)
                r = self.cmd.call(c["p"], fn)
                if self.kind == "buffer" and self.edge is not None:
                    ev["dr"] = self.delay_calls - calls0
                    self.delay_plan = []
                if r[0] == "ret" and r[1]:
                    self.items.append(it)
                    t["state"] = "used"
                    ev["it"] = it.gid
                    ev["res"] = "ok"
                    res = ["ok"]
                else:
                    ev["res"] = type(r[1]).__name__ if r[0] == "exc" else "falsy"
                    res = [ev["res"]]
            elif op == "get":
                t = self.resolve_token(c["n"])
                ev["tok"] = t["gid"]
                pre = {id(x): i + 1 for i, x in enumerate(self.inside_items())}
                r = self.cmd.call(c["p"], lambda: api.get(t["ev"]))
                if r[0] == "ret":
                    it = r[1]
                    t["state"] = "used"
                    gid = getattr(it, "gid", -1)
                    ev["res"] = "item"
                    ev["ri"] = gid
                    res = ["item", pre.get(id(it), -1), getattr(it, "tag", -1)]
                else:
                    ev["res"] = type(r[1]).__name__
                    res = [ev["res"]]
            elif op in ("cp", "cg"):
                t = self.resolve_token(c["n"])
                ev["tok"] = t["gid"]
                capi = api if hasattr(api, "reserve_put_cancel") else self.store
                fn = (lambda: capi.reserve_put_cancel(t["ev"])) if op == "cp" else (lambda: capi.reserve_get_cancel(t["ev"]))
                r = self.cmd.call(c["p"], fn)
                if r[0] == "ret":
                    t["state"] = "cancelled"
                    ev["res"] = "ok" if r[1] else "falsy"
                    res = [ev["res"]]
                else:
                    ev["res"] = type(r[1]).__name__
                    res = [ev["res"]]
            else:
                raise ValueError(op)
            ev.update(self.observe())
        return ev, res

    def tick(self):
        with quiet():
            self.now += 1
            self.env.advance_to(self.now * TICK)
            self.env.drain_urgent()
            ev = self.blank("t")
            ev.update(self.observe())
        return ev

    def fire(self, max_events=200):
        """Step the kernel inside the current instant until the projection changes.
        Returns (trace event, changed?)."""
        with quiet():
            before = json.dumps(self.project(), sort_keys=True)
            changed = False
            n = 0
            while not self.env.instant_over() and n < max_events:
                self.env.step()
                n += 1
                after = json.dumps(self.project(), sort_keys=True)
                if after != before:
                    changed = True
                    self.env.drain_urgent()
                    if self.kind == "filter":
                        self._absorb_equal_triggers()
                    break
            ev = self.blank("f")
            ev.update(self.observe())
        return ev, changed

    def _absorb_equal_triggers(self):
        """The model merges re-trigger timers that fire in the same instant (they are indistinguishable:
        each is one _trigger_reserve_get).  After one of them had an effect, step through the others
        as long as they change nothing."""
        s = self.store
        env = self.env

        def is_trigger(ev):
            for cb in (ev.callbacks or []):
                if getattr(cb, "__name__", "") == "_trigger_reserve_get" and getattr(cb, "__self__", None) is s:
                    return True
            for p, n, o, t0 in env.live_procs("_add_trigger_event", s):
                if p.target is ev:
                    return True
            return False

        def proj():
            st = self.project()
            st["timers"] = [x for x in st["timers"] if x > 0]
            return json.dumps(st, sort_keys=True)

        ref = proj()
        def skippable(ev):          # nobody listens: processing it cannot change anything
            return not ev.callbacks

        while env._queue and env._queue[0][0] == env.now and \
                (is_trigger(env._queue[0][3]) or skippable(env._queue[0][3])):
            env.step()
            env.drain_urgent()
            if proj() != ref:
                break

    def settle_events(self, max_events=10000):
        """Process the rest of the current instant kernel event by kernel event; one "f" trace event per
        observable change (so that a trace event never merges two grants of different kernel events),
        then the end-of-instant observation."""
        out = []
        with quiet():
            last = json.dumps(self.observe(), sort_keys=True)
            n = 0
            while not self.env.instant_over() and n < max_events:
                self.env.step()
                n += 1
                o = self.observe()
                cur = json.dumps(o, sort_keys=True)
                if cur != last:
                    ev = self.blank("f")
                    ev.update(o)
                    out.append(ev)
                    last = cur
            ev = self.blank("e")
            ev.update(self.observe())
            out.append(ev)
        return out

    def settle(self, max_events=10000):
        """Process everything left in the current instant (end of instant)."""
        with quiet():
            n = 0
            while not self.env.instant_over() and n < max_events:
                self.env.step()
                n += 1
            ev = self.blank("e")
            ev.update(self.observe())
        return ev


# ---------------------------------------------------------------------- random histories (not model driven)
def crash_event(real, evs):
    """An exception escaped from one of the library's own processes: the trace ends with an event of kind "x" that
    carries the last observation (the object is not touched again)."""
    ev = real.blank("x")
    last = next((e for e in reversed(evs) if "trig" in e), None)
    for k in ("trig", "ready", "cp", "cg", "occ", "q"):
        ev[k] = last[k] if last is not None and k in last else {"trig": [], "ready": [], "cp": 2, "cg": 2, "occ": -1, "q": False}[k]
    ev["q"] = False
    return ev


def random_history(real, rng, nsteps, prios=(0,), filters=(1,), tags=(0,), delays=(0,), nprocs=2, p_ill=0.12,
                   p_tick=0.15, max_live=8, out=None):
    """Extend the trace of `real` by up to nsteps random API calls / ticks chosen from what is alive in
    the REAL object (tokens by global id).  Mostly well-formed calls, some ill-formed ones.  Used for long
    histories beyond the model bound and to keep observing after a walk left the model (drift)."""
    evs = out if out is not None else []      # `out`: the events recorded so far survive an exception
    timed = real.kind in ("buffer", "fleet", "filter", "conveyor", "slotted")
    for _ in range(nsteps):
        live = [t for t in real.tokens if t["state"] == "live"]
        gput = [t for t in live if t["kind"] == "put" and t["ev"].triggered]
        gget = [t for t in live if t["kind"] == "get" and t["ev"].triggered]
        r = rng.random()
        if timed and r < p_tick:
            evs.extend(real.settle_events())
            evs.append(real.tick())
            evs.extend(real.settle_events())
            continue
        procs = list(range(0, nprocs + 1))
        ops = []
        if len(live) < max_live:
            ops += ["rp", "rg", "rp", "rg"]
            if real.kind == "conveyor" and any(t["kind"] == "put" for t in live):
                # known finding of C12 (continuous conveyor): space reservations are granted without regard to the
                # reservations already granted, items that enter too close make the belt's placement logic raise.
                # One space reservation at a time here (a single upstream producer), so that everything else about the
                # continuous conveyor is still judged.
                ops = [o for o in ops if o != "rp"]
        if gput:
            ops += ["put"] * 4
        if gget:
            ops += ["get"] * 4
        if live:
            ops += ["cancel"]
        if rng.random() < p_ill or not ops:
            ops = ["ill"]
        op = rng.choice(ops)

        def numbered(tok):
            lt = real.live_tokens()
            for i, t in enumerate(lt):
                if t is tok:
                    return i + 1
            return 0
        c = {"op": op, "p": 0, "n": 0, "prio": 0, "flt": 1, "tag": 0, "d": 0}
        if op == "rp":
            c.update(p=rng.choice(procs), prio=rng.choice(prios))
        elif op == "rg":
            c.update(p=rng.choice(procs), prio=rng.choice(prios), flt=rng.choice(filters))
        elif op == "put":
            t = rng.choice(gput)
            c.update(p=t["owner"], n=numbered(t), tag=rng.choice(tags), d=rng.choice(delays))
        elif op == "get":
            t = rng.choice(gget)
            c.update(p=t["owner"], n=numbered(t))
        elif op == "cancel":
            t = rng.choice(live)
            c.update(op="cp" if t["kind"] == "put" else "cg", n=numbered(t))
        else:
            c.update(op=rng.choice(["put", "get", "cp", "cg"]), p=rng.choice(procs),
                     n=rng.choice([0] + [numbered(t) for t in live]) if live else 0,
                     tag=rng.choice(tags), d=rng.choice(delays))
        ev, _res = real.call(c)
        evs.append(ev)
        if real.kind in ("conveyor", "slotted") and ev["op"] == "put" and ev["res"] == "ok":
            # two entries in one instant are the recorded known finding of C12 (and make the continuous belt raise):
            # let at least one tick pass after every entry, as a single upstream producer would
            evs.extend(real.settle_events())
            evs.append(real.tick())
            evs.extend(real.settle_events())
    evs.extend(real.settle_events())
    return evs



# ---------------------------------------------------------------------- scripted scenarios (systematic, not random)
def cancel_scenario(real, n, k, ci, extra, order, maxwait=60):
    """fill with n items, wait until they are offered, reserve k retrievals, cancel the ci-th of them, reserve `extra`
    more, then take everything that is granted in issue order or in reverse.  -> list of trace events"""
    evs = []

    def numbered(tok):
        for i, t in enumerate(real.live_tokens()):
            if t is tok:
                return i + 1
        return 0

    def do(c):
        base = {"op": "", "p": 1, "n": 0, "prio": 0, "flt": 1, "tag": 0, "d": 0}
        base.update(c)
        ev, _ = real.call(base)
        evs.append(ev)
        evs.extend(real.settle_events())
        return ev

    def tick():
        evs.append(real.tick())
        evs.extend(real.settle_events())

    for i in range(n):
        do({"op": "rp", "p": 1})
        tok = real.tokens[-1]
        w = 0
        while not tok["ev"].triggered and w < maxwait:
            tick()
            w += 1
        if not tok["ev"].triggered:
            return evs
        do({"op": "put", "p": 1, "n": numbered(tok)})
    w = 0
    while hasattr(real.store, "ready_items") and len(real.store.ready_items) < n and w < maxwait:
        tick()
        w += 1
    gets = []
    for i in range(k):
        do({"op": "rg", "p": 1 + (i % 2)})
        gets.append(real.tokens[-1])
    do({"op": "cg", "p": 0, "n": numbered(gets[ci])})
    for i in range(extra):
        do({"op": "rg", "p": 2})
        gets.append(real.tokens[-1])
    live = [t for t in gets if t["state"] == "live" and t["ev"].triggered]
    for t in (live if order == "fifo" else list(reversed(live))):
        do({"op": "get", "p": t["owner"], "n": numbered(t)})
    tick()
    return evs


def fleet_same_instant_scenario(real, first_at, fill_after_timer=True, maxwait=40):
    """fleet: one item loaded at tick first_at, the dispatch timer expires and sends it alone; in that very instant another
    put fills the fleet (capacity 2): it must depart again at once.  Then everything is taken."""
    evs = []

    def numbered(tok):
        for i, t in enumerate(real.live_tokens()):
            if t is tok:
                return i + 1
        return 0

    def do(c):
        base = {"op": "", "p": 1, "n": 0, "prio": 0, "flt": 1, "tag": 0, "d": 0}
        base.update(c)
        ev, _ = real.call(base)
        evs.append(ev)
        return ev

    def tick():
        evs.extend(real.settle_events())
        evs.append(real.tick())

    def put_one():
        do({"op": "rp", "p": 1})
        tok = real.tokens[-1]
        evs.extend(real.settle_events())
        if tok["ev"].triggered:
            do({"op": "put", "p": 1, "n": numbered(tok)})
            return True
        return False

    for _ in range(first_at):
        tick()
    put_one()
    fd = real.cfg["fdelay"]
    while real.now % fd != 0 or real.now == 0 or real.now < first_at + 1:
        tick()
    if fill_after_timer:
        evs.extend(real.settle_events())      # the timer's departure has happened; same instant:
    put_one()
    evs.extend(real.settle_events())
    for _ in range(2 * real.cfg["transit"] + fd + 2):
        tick()
    evs.extend(real.settle_events())
    for i in range(2):
        do({"op": "rg", "p": 2})
        tok = real.tokens[-1]
        evs.extend(real.settle_events())
        if tok["ev"].triggered:
            do({"op": "get", "p": 2, "n": numbered(tok)})
    tick()
    evs.extend(real.settle_events())
    return evs


def reexecute(cfg, events, nprocs=3):
    """Replay a recorded store trace on the CURRENT tree: the same calls (tokens by their recorded numbers), the same
    ticks and end-of-instant points.  Returns the newly recorded trace."""
    via_edge = cfg["kind"] in ("buffer", "fleet", "conveyor", "slotted") and not any(
        e.get("k") == "c" and e.get("op") in ("rp", "rg") and e.get("prio", 0) != 0 for e in events)
    real = RealStore(cfg, nprocs=nprocs, via_edge=via_edge)
    out = [real.settle()]
    by_gid = {}
    for e in events[1:]:
        k = e["k"]
        if k == "t":
            out.append(real.tick())
        elif k in ("e", "f"):
            out.extend(real.settle_events()) if k == "e" else None
        elif k == "c":
            c = {"op": e["op"], "p": e["p"], "n": 0, "prio": e["prio"], "flt": e["flt"], "tag": e["tag"], "d": e["d"]}
            if e["op"] in ("put", "get", "cp", "cg"):
                tok = by_gid.get(e["tok"])
                live = real.live_tokens()
                c["n"] = (live.index(tok) + 1) if tok is not None and tok in live else 0
                if c["n"] == 0 and tok is not None and tok["state"] != "live":
                    # a dead token of the recording: resolve_token(0) hands the most recent dead token
                    pass
            ev, _res = real.call(c)
            if e["op"] in ("rp", "rg") and ev["res"] == "tok":
                by_gid[e["tok"]] = real.tokens[-1]
            out.append(ev)
    out.extend(real.settle_events())
    return {"cfg": cfg, "src": "replay", "ev": out}
