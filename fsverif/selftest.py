"""Demonstrates that the specifications are BOUND to the code (not run by the checks; `python -m fsverif.selftest`):
 1. trace corruption: one recorded field of a good trace is changed -> TLC must reject and name the right clause;
 2. hook removal: a wrapper is dropped from the instrumentation -> the ledger's well-formedness / conservation clauses fail;
 3. vacuity: the TLC-exported graph contains every kind of call with both accepted and rejected outcomes."""
import copy, json, os, random, sys
from . import common, tracecheck, storecfg, tlc


def _store_trace():
    from .store_driver import RealStore, random_history
    cfg = dict(kind="buffer", mode="FIFO", cap=3, fdelay=1, transit=0, trig=0)
    real = RealStore(cfg, nprocs=2, via_edge=True)
    tr = {"cfg": cfg, "src": "selftest", "ev": [real.settle()]}
    tr["ev"].extend(random_history(real, random.Random(5), 120, delays=(0, 1, 2), nprocs=2, max_live=6))
    return tr


def main():
    os.environ["FACTORYSIMPY_VERIF"] = "1"
    ok = True
    invs, props = [], []
    for k, (i, p) in tracecheck.T_STORE.items():
        invs += i
        props += p
    good = _store_trace()
    viol, r = tracecheck.check_batch("Trace_Store", [good], invs, props, workers=2, tag="st0")
    print("good trace: %d events, violations: %s" % (len(good["ev"]), viol))
    ok &= (viol == [] and r.completed)
    corruptions = []
    # (a) a returned item id is changed  -> C02
    t = copy.deepcopy(good)
    i = next(i for i, e in enumerate(t["ev"]) if e["k"] == "c" and e["op"] == "get" and e["res"] == "item")
    t["ev"][i]["ri"] += 50
    corruptions.append(("returned item id changed", t, {"T_C02_GetFresh"}))
    # (b) a trigger flag is dropped: a granted token looks pending -> the call made with it looks ill-formed -> C07 / C01
    t = copy.deepcopy(good)
    i = next(i for i, e in enumerate(t["ev"]) if e["k"] == "c" and e["op"] == "put" and e["res"] == "ok")
    tok = t["ev"][i]["tok"]
    for e in t["ev"][:i]:
        e["trig"] = [x for x in e["trig"] if x != tok]
    corruptions.append(("trigger flag of a used token removed", t, {"T_C07_Reject", "T_C04_Put"}))
    # (c) an item is reported ready one tick early -> C11
    t = copy.deepcopy(good)
    i = next(i for i, e in enumerate(t["ev"]) if e["k"] == "c" and e["op"] == "put" and e["res"] == "ok" and e["d"] >= 1)
    t["ev"][i]["ready"] = t["ev"][i]["ready"] + [t["ev"][i]["it"]]
    corruptions.append(("item reported ready before its delay", t, {"T_C11_NotBeforeInv"}))
    # (d) occupancy off by one -> C01
    t = copy.deepcopy(good)
    t["ev"][len(t["ev"]) // 2]["occ"] += 1
    corruptions.append(("occupancy off by one", t, {"T_C01_Occupancy"}))
    for name, tr, expect in corruptions:
        viol, r = tracecheck.check_batch("Trace_Store", [tr], invs, props, workers=2, tag="st1")
        got = {v["clause"] for v in viol}
        good_ = bool(got & expect)
        print("corruption %-45s -> %s %s" % (name, sorted(got), "OK" if good_ else "NOT DETECTED (expected one of %s)" % sorted(expect)))
        ok &= good_
    # 2. hook removal in the factory tracer: drop the `get` wrapper -> the ledger never sees items leave edges
    from . import factory_driver, factory_engine, factory_cfg
    factory_driver.install()
    from factorysimpy.edges.buffer import Buffer
    from factorysimpy.base.buffer_store import BufferStore
    saved = (Buffer.get, BufferStore.get)
    Buffer.get = getattr(Buffer.get, "__wrapped__", Buffer.get)
    BufferStore.get = getattr(BufferStore.get, "__wrapped__", BufferStore.get)
    try:
        tr = factory_engine.to_tlc(factory_driver.run_config(factory_cfg.line_sbmbk()))
    finally:
        Buffer.get, BufferStore.get = saved
    fi, fp = [], []
    for k, (i, p) in factory_engine.T_FACTORY.items():
        fi += i
        fp += p
    viol, r = tracecheck.check_batch("Trace_Factory", [tr], fi + factory_engine.WF[0], fp + factory_engine.WF[1], workers=2, tag="st2")
    got = sorted({v["clause"] for v in viol})
    print("hook removal (Buffer.get unwrapped) -> %s %s" % (got, "OK" if got else "NOT DETECTED"))
    ok &= bool(got)
    # 3. vacuity: the graph that TLC exports for the walk contains every kind of call, accepted and rejected
    from . import store_walk
    c = dict(storecfg.walk_configs("quick")["buffer_fifo"], MaxLive=2)
    g, r = store_walk.export_graph(c, workers=4)
    kinds = {}
    for v in g.values():
        for row in v["succ"]:
            k = (row["c"]["op"], row["r"][0])
            kinds[k] = kinds.get(k, 0) + 1
    need = [("rp", "tok"), ("rg", "tok"), ("put", "ok"), ("put", "RuntimeError"), ("get", "item"), ("get", "RuntimeError"),
            ("cp", "ok"), ("cp", "RuntimeError"), ("cg", "ok"), ("cg", "RuntimeError"), ("fireitem", "fired"), ("tick", "tick")]
    missing = [k for k in need if k not in kinds]
    print("graph rows by (call, result): %s missing: %s" % (sorted(kinds.items()), missing))
    ok &= not missing
    # 4. the specification itself finds the repaired defects: with Fixed = FALSE (original arithmetic) TLC must report
    #    the binding clauses on the buffer kind (P1/P2) and the batch clause on the fleet kind (P4)
    for kind, inv in (("buffer_fifo", "M_C02_Distinct"), ("buffer_fifo", "M_C02_GetHonoured")):
        c = dict(storecfg.configs("quick")[kind], Fixed=False)
        res = tlc.run_tlc("Store", tlc.make_cfg(c, invariants=[inv], view="View"), workers=8, timeout=300)
        found = any(n == inv for _k, n in res.violations)
        print("Fixed=FALSE %s %s -> %s" % (kind, inv, "counterexample found (as expected)" if found else "NO counterexample"))
        ok &= found
    print("SELFTEST", "PASSED" if ok else "FAILED")
    return 0 if ok else 1


if __name__ == "__main__":
    sys.exit(main())
