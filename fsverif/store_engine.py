"""Store engine (serves C01, C02, C04, C05, C06, C07, C11, C14).

leg A  TLC on spec/Store.tla, all kinds, M_* clauses (design level)           [cached by spec hash]
leg B  TLC exports the labelled state graph; a covering tour is walked on the real classes;
       random long histories beyond the bound                                   [cached by source hash]
leg C  TLC evaluates the T_* clauses (spec/Trace_Store.tla) on every recorded trace.
"""
import json, os, random, time, multiprocessing as mp
from . import common, tlc, storecfg, tracecheck

STORE_PROPS = ["C01", "C02", "C04", "C05", "C06", "C07", "C11", "C14"]


# ------------------------------------------------------------------------------------------ leg A
def _legA_one(args):
    name, consts, workers, timeout = args
    cfg = tlc.make_cfg(consts, invariants=storecfg.ALL_STORE_INVS, view="View")
    r = tlc.run_tlc("Store", cfg, workers=workers, timeout=timeout, tag=name)
    out = r.as_dict()
    out["name"] = name
    out["consts"] = {k: (sorted(v) if isinstance(v, (set, frozenset)) else v) for k, v in consts.items()}
    if r.violations:
        out["cex"] = tlc.counterexample(r.stdout)[-12:]
    return out


def leg_a(tier):
    """-> {cfgname: result}; cached by spec hash (independent of the implementation)."""
    p = os.path.join(common.cache_dir("legA"), "store-%s-%s.json" % (tier, common.spec_hash()))
    res = common.load_json(p)
    if res is not None:
        return res
    cfgs = storecfg.configs(tier)
    jobs = [(n, c, 8, 1500 if tier == "thorough" else 300) for n, c in cfgs.items()]
    with mp.Pool(2) as pool:
        outs = pool.map(_legA_one, jobs)
    res = {o["name"]: o for o in outs}
    cfg = tlc.make_cfg(dict(Cap=2, Prios={0, 1, 2}, MaxQ=3 if tier == "quick" else 4),
                       invariants=["P_C05_Sorted", "P_C05_ServedIsMin", "P_C01_Cap", "P_C04_EOI"], constraint="Bound", view="View")
    r = tlc.run_tlc("PrioReqStore", cfg, workers=8, timeout=900)
    o = r.as_dict()
    o["name"] = "prioreqstore"
    o["consts"] = {}
    res["prioreqstore"] = o
    common.save_json(p, res)
    return res


# ------------------------------------------------------------------------------------------ leg B
def _alpha(c):
    return dict(prios=tuple(sorted(c["Prios"])), filters=tuple(sorted(c["Filters"])), tags=tuple(sorted(c["Tags"])),
                delays=tuple(sorted(c["Delays"])))


def _walk_one(args):
    name, consts, seed, budget, outdir = args
    from . import store_walk
    t0 = time.time()
    g, r = store_walk.export_graph(consts, workers=4)
    tour = store_walk.Tour(g, storecfg.store_cfg_of(consts), seed=seed, nprocs=max(consts["Procs"]),
                           via_edge=(consts["Prios"] == {0}), budget_s=budget, max_trace_len=120,
                           alpha=_alpha(consts)).run()
    st = tour.stats()
    st["name"] = name
    st["export_states"] = r.distinct
    st["export_generated"] = r.generated
    st["drift_samples"] = tour.drift[:3]
    st["wall_total"] = round(time.time() - t0, 1)
    for t in tour.traces:
        t["name"] = name
    common.save_json(os.path.join(outdir, "walk_%s.json" % name), tour.traces)
    return st


RANDOM_CFGS = {
    # name: (cfg, alphabet, nprocs, via_edge)
    "r_prio": (dict(kind="prio", mode="FIFO", cap=3, fdelay=1, transit=0, trig=0), dict(prios=(-1, 0, 0, 2)), 3, False),
    "r_plain": (dict(kind="plain", mode="FIFO", cap=4, fdelay=1, transit=0, trig=0), {}, 2, False),
    "r_filter": (dict(kind="filter", mode="FIFO", cap=3, fdelay=1, transit=0, trig=2),
                 dict(prios=(0, 1), filters=(0, 1, 2, 3), tags=(0, 1)), 2, False),
    "r_filter_c5": (dict(kind="filter", mode="FIFO", cap=5, fdelay=1, transit=0, trig=0),
                    dict(prios=(0,), filters=(1, 1, 2, 3), tags=(0, 0, 1)), 1, False),
    "r_buffer_fifo": (dict(kind="buffer", mode="FIFO", cap=4, fdelay=1, transit=0, trig=0), dict(delays=(0, 1, 3)), 2, True),
    "r_buffer_lifo": (dict(kind="buffer", mode="LIFO", cap=3, fdelay=1, transit=0, trig=0), dict(delays=(0, 2)), 2, True),
    "r_buffer_gen": (dict(kind="buffer", mode="FIFO", cap=2, fdelay=1, transit=0, trig=0, delay_kind="generator"), dict(delays=(0, 1, 4, 2)), 2, True),
    "r_fleet": (dict(kind="fleet", mode="FIFO", cap=3, fdelay=3, transit=1, trig=0), {}, 2, True),
    "r_fleet_t0": (dict(kind="fleet", mode="FIFO", cap=4, fdelay=2, transit=0, trig=0), dict(prios=(0, 1)), 2, False),
    "b_conveyor_acc": (dict(kind="conveyor", mode="FIFO", cap=3, fdelay=1, transit=0, trig=0, slot=2, acc=1), {}, 2, True),
    "b_conveyor_nonacc": (dict(kind="conveyor", mode="FIFO", cap=4, fdelay=1, transit=0, trig=0, slot=1, acc=0), {}, 2, True),
    "b_slotted_acc": (dict(kind="slotted", mode="FIFO", cap=3, fdelay=1, transit=0, trig=0, slot=2, acc=1), {}, 2, True),
    "b_slotted_nonacc": (dict(kind="slotted", mode="FIFO", cap=2, fdelay=1, transit=0, trig=0, slot=3, acc=0), {}, 2, True),
    "b_slotted_prio": (dict(kind="slotted", mode="FIFO", cap=2, fdelay=1, transit=0, trig=0, slot=1, acc=1, prio_api=True),
                       dict(prios=(0, 1, 1, 3)), 2, True),
    "b_conveyor_prio": (dict(kind="conveyor", mode="FIFO", cap=3, fdelay=1, transit=0, trig=0, slot=1, acc=1, prio_api=True),
                        dict(prios=(0, 2, 2, 5)), 2, True),
    "r_fleet_store": (dict(kind="fleet", mode="FIFO", cap=2, fdelay=4, transit=2, trig=0), dict(prios=(0, 1)), 2, False),
}


SCEN_CFGS = {
    # name: (cfg, via_edge); traces go to rand_scen_* (all ledger clauses + binding inference) or rbelt_scen_* (belts)
    "scen_buffer_fifo": (dict(kind="buffer", mode="FIFO", cap=4, fdelay=1, transit=0, trig=0), True),
    "scen_buffer_lifo": (dict(kind="buffer", mode="LIFO", cap=4, fdelay=1, transit=0, trig=0), True),
    "scen_fleet": (dict(kind="fleet", mode="FIFO", cap=4, fdelay=3, transit=1, trig=0), True),
    "scen_fleet_t0": (dict(kind="fleet", mode="FIFO", cap=3, fdelay=2, transit=0, trig=0), False),
    "scen_prio": (dict(kind="prio", mode="FIFO", cap=4, fdelay=1, transit=0, trig=0), False),
    "scen_plain": (dict(kind="plain", mode="FIFO", cap=4, fdelay=1, transit=0, trig=0), False),
    "scen_filter": (dict(kind="filter", mode="FIFO", cap=4, fdelay=1, transit=0, trig=0), False),
    "b_scen_slotted": (dict(kind="slotted", mode="FIFO", cap=4, fdelay=1, transit=0, trig=1, slot=1, acc=1), True),
    "b_scen_conveyor": (dict(kind="conveyor", mode="FIFO", cap=4, fdelay=1, transit=0, trig=0, slot=1, acc=1), True),
}


def _scenario_one(args):
    """Systematic cancellation scenarios: n items offered, k retrievals granted, the i-th cancelled, more reserved, all taken
    (every n, k, i for small numbers; both orders of taking)."""
    name, outdir = args
    from .store_driver import RealStore, cancel_scenario, crash_event
    cfg, via_edge = SCEN_CFGS[name]
    traces = []
    for n in range(2, min(cfg["cap"], 4) + 1):
        for k in range(2, n + 1):
            for ci in range(k):
                for extra in (1, 2):
                    for order in ("fifo", "rev"):
                        real = RealStore(cfg, nprocs=2, via_edge=via_edge)
                        tr = {"cfg": cfg, "src": "scenario n=%d k=%d cancel=%d extra=%d %s" % (n, k, ci, extra, order), "name": name,
                              "ev": [real.settle()]}
                        try:
                            tr["ev"].extend(cancel_scenario(real, n, k, ci, extra, order))
                        except Exception as ex:
                            if not common.from_library(ex):
                                raise
                            tr["src"] += " crash:%s" % type(ex).__name__
                            tr["ev"].append(crash_event(real, tr["ev"]))
                        traces.append(tr)
    if cfg["kind"] == "fleet":
        # the dispatch timer and the capacity trigger in one instant
        from .store_driver import fleet_same_instant_scenario
        for cap, fd, tr_ in [(2, 3, 1), (2, 2, 0), (2, 4, 2)]:
            for first_at in (1, fd - 1):
                for after in (True, False):
                    c2 = dict(cfg, cap=cap, fdelay=fd, transit=tr_)
                    real = RealStore(c2, nprocs=2, via_edge=via_edge)
                    tr = {"cfg": c2, "src": "scenario timer+capacity first_at=%d after=%s" % (first_at, after), "name": name,
                          "ev": [real.settle()]}
                    try:
                        tr["ev"].extend(fleet_same_instant_scenario(real, first_at, after))
                    except Exception as ex:
                        if not common.from_library(ex):
                            raise
                        tr["src"] += " crash:%s" % type(ex).__name__
                        tr["ev"].append(crash_event(real, tr["ev"]))
                    traces.append(tr)
    fn = ("rbelt_%s.json" if name.startswith("b_") else "rand_%s.json") % name
    common.save_json(os.path.join(outdir, fn), traces)
    return {"name": name, "traces": len(traces), "events": sum(len(t["ev"]) for t in traces),
            "crashes": [t["src"] for t in traces if "crash:" in t["src"]][:3]}


def _random_one(args):
    name, seed, ntraces, nsteps, outdir = args
    from .store_driver import RealStore, random_history, crash_event
    cfg, alpha, nprocs, via_edge = RANDOM_CFGS[name]
    rng = random.Random("%s-%d" % (name, seed))
    traces = []
    nev = 0
    for i in range(ntraces):
        real = RealStore(cfg, nprocs=nprocs, via_edge=via_edge)
        tr = {"cfg": cfg, "src": "random", "name": name, "ev": [real.settle()]}
        try:
            random_history(real, rng, nsteps, nprocs=nprocs, max_live=rng.choice([4, 6, 10]),
                           p_ill=rng.choice([0.05, 0.15]), p_tick=rng.choice([0.1, 0.25]), out=tr["ev"], **alpha)
        except Exception as ex:
            if not common.from_library(ex):
                raise                        # a bug of the harness, not of the library
            tr["src"] = "random-crash:%s:%s" % (type(ex).__name__, str(ex)[:200])
            tr["ev"].append(crash_event(real, tr["ev"]))
        nev += len(tr["ev"])
        traces.append(tr)
    common.save_json(os.path.join(outdir, ("rbelt_%s.json" if name.startswith("b_") else "rand_%s.json") % name), traces)
    return {"name": name, "traces": len(traces), "events": nev,
            "crashes": [t["src"] for t in traces if t["src"].startswith("random-crash")][:3]}


def _prioreq_one(args):
    """Random histories on the real PriorityReqStore (SimPy Store with sorted request queues): put / get
    REQUESTS with priorities, cancellations of waiting requests, time gaps.  Recorded in the Trace_Store
    schema (a request is a token that is 'granted' when the request event is triggered); judged for C05."""
    seed, ntraces, nsteps, outdir = args
    from factorysimpy.base.priority_req_store import PriorityReqStore
    from .tracer import TracedEnvironment, quiet
    rng = random.Random("prioreq-%d" % seed)
    traces = []
    for i in range(ntraces):
        cap = rng.choice([1, 2, 3])
        cfg = dict(kind="prioreq", mode="FIFO", cap=cap, fdelay=1, transit=0, trig=0)
        env = TracedEnvironment()
        st = PriorityReqStore(env, capacity=cap)
        reqs = []          # (event, kind, prio, state)
        ev = []
        now = [0]

        def obs(k, **kw):
            q = not any(t <= env.now and e.callbacks for (t, _p, _i, e) in env._queue)
            d = {"k": k, "t": now[0], "op": "", "p": 0, "tok": 0, "it": 0, "tag": 0, "d": 0, "prio": 0, "flt": 1, "res": "",
                 "ri": 0, "dr": -1, "trig": [j + 1 for j, r in enumerate(reqs) if r[3] == "live" and r[0].triggered],
                 "ready": [], "cp": 2, "cg": 2, "occ": -1, "q": q}
            d.update(kw)
            ev.append(d)
        with quiet():
            obs("e")
            for _ in range(nsteps):
                r = rng.random()
                if r < 0.15:
                    while not env.instant_over():
                        env.step()
                    obs("e")
                    now[0] += 1
                    env.advance_to(float(now[0]))
                    obs("t")
                elif r < 0.30 and not env.instant_over():
                    env.step()
                    obs("f")
                elif r < 0.42 and any(x[3] == "live" and not x[0].triggered for x in reqs):
                    j = rng.choice([j for j, x in enumerate(reqs) if x[3] == "live" and not x[0].triggered])
                    reqs[j][0].cancel()
                    reqs[j][3] = "canc"
                    obs("c", op="cp" if reqs[j][1] == "put" else "cg", tok=j + 1, res="ok")
                else:
                    kind = rng.choice(["put", "get"])
                    pr = rng.choice([-2, 0, 0, 1, 5])
                    e = st.put(object(), priority=pr) if kind == "put" else st.get(priority=pr)
                    reqs.append([e, kind, pr, "live"])
                    obs("c", op="rp" if kind == "put" else "rg", tok=len(reqs), prio=pr, res="tok")
            while not env.instant_over():
                env.step()
            obs("e")
        traces.append({"cfg": cfg, "src": "random", "name": "prioreq", "ev": ev})
    common.save_json(os.path.join(outdir, "prq_prioreq.json"), traces)
    return {"name": "prioreq", "traces": len(traces), "events": sum(len(t["ev"]) for t in traces), "crashes": []}


def corpus(tier, seed):
    """Build (or reuse) the trace corpus of the current /repo tree.  -> (dir, stats)"""
    key = "%s-%s-%s-%s-%s" % (common.src_hash(), common.spec_hash(), common.harness_hash(), tier, seed)
    d = common.cache_dir("store_corpus", key)
    stp = os.path.join(d, "stats.json")
    st = common.load_json(stp)
    if st is not None:
        return d, st
    t0 = time.time()
    W = storecfg.walk_configs(tier)
    budget = 10 if tier == "quick" else 240
    jobs = [(n, c, seed, budget, d) for n, c in W.items()]
    rjobs = [(n, seed, 30 if tier == "quick" else 300, 150 if tier == "quick" else 300, d) for n in RANDOM_CFGS]
    with mp.Pool(6 if tier == "quick" else 8) as pool:
        pa = pool.apply_async(_prioreq_one, ((seed, 40 if tier == "quick" else 600, 120, d),))
        ra = pool.map_async(_random_one, rjobs)
        sa = pool.map_async(_scenario_one, [(n, d) for n in SCEN_CFGS])
        wa = pool.map_async(_walk_one, jobs)
        walks = wa.get()
        rands = ra.get() + sa.get() + [pa.get()]
    st = {"walks": walks, "random": rands, "wall": round(time.time() - t0, 1)}
    common.save_json(stp, st)
    return d, st


# ------------------------------------------------------------------------------------------ leg C
def _legC_one(args):
    fname, d = args
    traces = common.load_json(os.path.join(d, fname))
    invs, props = [], []
    if fname.startswith("prq_"):
        invs, props = ["T_WF"], ["T_C05_GrantOrder", "T_TimeMonotone"]
    elif fname.startswith("rbelt_"):
        # belt stores: the ledger-level clauses that do not need the belt's admission geometry
        invs = ["T_WF", "T_C01_Cap", "T_C01_Occupancy", "T_C01_NoBreakdown", "T_C02_Backed", "T_C02_ReadyInside", "T_C02_NoBreakdown"]
        props = ["T_TimeMonotone", "T_C01_PutHonoured", "T_C02_GetFresh", "T_C02_GetHonoured", "T_C02_NoInvent", "T_C05_GrantOrder",
                 "T_C07_Reject", "T_C07_Accept"]
        if "slotted" in fname:
            invs += ["T_C04_Put", "T_C04_Get"]      # the slotted belt store is a StoreCore kind: wake-ups are judged too
            invs += ["T_C12_MinTravelS", "T_C12_OrderS"]
    else:
        for k, (i, p) in tracecheck.T_STORE.items():
            invs += i
            props += p
        invs += tracecheck.WF_CLAUSES[0]
        props += tracecheck.WF_CLAUSES[1]
    viol, r = tracecheck.check_batch("Trace_Store", traces, invs, props, workers=4, timeout=1800, tag=fname)
    out = {"file": fname, "tlc": r.as_dict(), "violations": viol, "traces": len(traces),
           "events": sum(len(t["ev"]) for t in traces)}
    if not r.completed or r.errors:
        out["tail"] = r.stdout[-1500:]
    return out


def leg_c(d):
    p = os.path.join(d, "legC.json")
    res = common.load_json(p)
    if res is not None:
        return res
    files = sorted(f for f in os.listdir(d) if f.startswith(("walk_", "rand_", "prq_", "rbelt_")) and f.endswith(".json"))
    with mp.Pool(4) as pool:
        outs = pool.map(_legC_one, [(f, d) for f in files])
    res = {o["file"]: o for o in outs}
    common.save_json(p, res)
    return res


def clause_property(clause):
    for prop, (i, p) in tracecheck.T_STORE.items():
        if clause in i or clause in p:
            return prop
    if clause in tracecheck.WF_CLAUSES[0] or clause in tracecheck.WF_CLAUSES[1]:
        return "WF"
    return None
