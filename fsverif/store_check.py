"""Verdict for the store-engine properties from leg A + leg B + leg C results."""
import json, os
from . import common, store_engine, storecfg, tracecheck


def _sample_trace(tr, n=14):
    def short(e):
        if e["k"] == "c":
            return "%s(p%d,tok%d)->%s%s" % (e["op"], e["p"], e["tok"], e["res"], ("#%d" % e["ri"]) if e["ri"] else "")
        return {"t": "tick", "f": "fire", "e": "eoi"}.get(e["k"], e["k"]) + "@%d" % e["t"]
    return {"store": tr.get("name"), "source": tr.get("src"), "events": [short(e) for e in tr["ev"][:n]]}


def run(prop, tier, seed):
    la = store_engine.leg_a(tier)
    d, st = store_engine.corpus(tier, seed)
    lc = store_engine.leg_c(d)
    my_inv = set(storecfg.STORE_INVARIANTS.get(prop, []))
    my_t = set(tracecheck.T_STORE.get(prop, ([], []))[0]) | set(tracecheck.T_STORE.get(prop, ([], []))[1])
    if prop in ("C02", "C06"):
        from . import bind_engine
        bind = bind_engine.results(d, tier)
    else:
        bind = None
    mach = []
    violations = []
    # ---- leg A
    states = transitions = 0
    legA_cfgs = []
    for name, r in la.items():
        states += r["distinct"]
        transitions += r["generated"]
        legA_cfgs.append({"config": name, "distinct": r["distinct"], "generated": r["generated"], "depth": r["depth"]})
        if not r["completed"] or r["timed_out"] or r["errors"]:
            mach.append("leg A %s did not complete: %s" % (name, r["errors"][:1]))
        for kind, inv in r["violations"]:
            if inv in my_inv or (name == "prioreqstore" and inv.split("_")[1] == prop):
                mach.append("design-level violation of %s in model config %s (not a verdict by itself; see DESIGN 2.3)"
                            % (inv, name))
    # ---- leg C
    ntr = nev = 0
    per_file = {}
    for fname, r in lc.items():
        ntr += r["traces"]
        nev += r["events"]
        t = r["tlc"]
        if not t["completed"] or t["timed_out"] or t["errors"]:
            mach.append("leg C %s: TLC did not complete %s %s" % (fname, t["errors"][:1], r.get("tail", "")[-300:]))
        seen = set()
        for v in r["violations"]:
            p = store_engine.clause_property(v["clause"])
            if p == "WF":
                mach.append("malformed trace %s tid=%s l=%s (%s)" % (fname, v["tid"], v["l"], v["clause"]))
            if v["clause"] in my_t and (v["clause"], v["tid"]) not in seen:
                seen.add((v["clause"], v["tid"]))
                per_file.setdefault(fname, []).append(v)
    for fname, vs in per_file.items():
        traces = common.load_json(os.path.join(d, fname))
        for v in vs[:3]:
            tr = traces[v["tid"] - 1] if v["tid"] else None
            violations.append({"clause": v["clause"], "engine": "store", "component": (tr or {}).get("cfg", {}).get("kind"),
                               "mode": (tr or {}).get("cfg", {}).get("mode"), "corpus_file": fname, "tid": v["tid"],
                               "step": v["l"], "cfg": (tr or {}).get("cfg"),
                               "events": (tr or {"ev": []})["ev"][:(v["l"] or 0) + 1], "source": (tr or {}).get("src")})
    if bind is not None:
        for b in bind["violations"]:
            if b["property"] == prop:
                violations.append(b)
        mach += bind.get("machinery", [])
        ntr_bind = bind["traces"]
    else:
        ntr_bind = 0
    # ---- evidence
    walks = st["walks"]
    drift = sum(w["drift"] for w in walks)
    edges = sum(w["edges"] for w in walks)
    cov = sum(w["edges_covered"] for w in walks)
    d0 = sorted(f for f in os.listdir(d) if f.startswith("walk_"))
    samples = []
    for f in d0[:2] + sorted(f for f in os.listdir(d) if f.startswith("rand_"))[:1]:
        trs = common.load_json(os.path.join(d, f))
        if trs:
            samples.append(_sample_trace(trs[len(trs) // 2]))
    coverage = {
        "states": states, "transitions": transitions, "traces_validated_against_impl": ntr,
        "samples": samples,
        "legA_configs": legA_cfgs, "legA_invariants": sorted(my_inv),
        "legB_graph_edges": edges, "legB_graph_edges_executed_on_real_classes": cov,
        "legB_walks": [{k: w[k] for k in ("name", "states", "edges", "edges_covered", "unrealised_timer_orders",
                                          "steps", "traces", "drift")} for w in walks],
        "legB_random_histories": st["random"],
        "legC_clauses": sorted(my_t), "legC_events_judged": nev,
        "legC_binding_traces": ntr_bind,
        "drift_model_vs_implementation": drift,
        "evaluations": nev, "distinct_nontrivial": cov,
        "rule": "leg A: complete TLC graphs of Store.tla per kind and bound; leg B: every (state, call) pair of the "
                "exported graph executed on the real class (distinct pairs counted), plus random histories; "
                "leg C: every recorded event judged by the T_* clauses in TLC",
    }
    coverage["exhaustive"] = False
    assumptions = [
        "small scope: leg A/B are exhaustive only within the bounds listed in legA_configs / legB_walks "
        "(canonical renumbering removes the bound on history length, not on simultaneity)",
        "fleet graphs: model states reachable only through a same-instant timer order the kernel never produces "
        "are not executed on the real class (counted in legB_walks.unrealised_timer_orders)",
        "times are integer ticks (1 tick = 1.0 time unit)",
        "TLC, CommunityModules Json/IOUtils, SimPy kernel and the ledger fold of Trace_Store.tla are trusted",
    ]
    summary = "legA %d states, legB %d/%d graph edges on real classes, drift %d, legC %d traces / %d events" % (
        states, cov, edges, drift, ntr, nev)
    return {"violations": violations, "machinery_errors": mach, "level": "model_checking", "coverage": coverage,
            "assumptions": assumptions, "summary": summary}


def replay(prop, path):
    """Re-execute the recorded calls on the current tree and let TLC judge the new trace (and, for comparison, the
    recorded one)."""
    from .store_driver import reexecute
    v = common.load_json(path)
    if not v or "events" not in v:
        print("cannot read", path)
        return 2
    inv, props = tracecheck.T_STORE.get(prop, ([], []))
    os.environ["FACTORYSIMPY_VERIF"] = "1"
    try:
        new = reexecute(v["cfg"], v["events"])
    except Exception as ex:
        print("re-execution failed: %s: %s" % (type(ex).__name__, ex))
        return 2
    if prop in ("C02", "C06") and v.get("clause", "").startswith(("T_C06", "T_C02_Distinct")):
        from . import bind_engine
        d = common.cache_dir("replay_bind")
        common.save_json(os.path.join(d, "rand_replay.json"), [new])
        o = bind_engine._one(("rand_replay.json", d, 0))
        for r in o["rejected"]:
            print("replayed on the current tree: %s at step %s" % (r["clause"], r["step"]))
        return 1 if o["rejected"] else 0
    viol, r = tracecheck.check_batch("Trace_Store", [new], inv, props, workers=1, tag="replay")
    for x in viol:
        print("replayed on the current tree: clause %s violated at step %s" % (x["clause"], x["l"]))
    if not viol:
        print("replayed on the current tree: no clause of %s violated (%d events)" % (prop, len(new["ev"])))
    return 1 if viol else 0
