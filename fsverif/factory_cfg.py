"""Factory configurations: hand-written families (small, systematic) and seeded random members.

A configuration is a dict (see factory_driver.build).  Times are ticks (Q ticks per time unit).
`expect`: "valid" (must run to T without crash/livelock), "invalid" (one of the six listed invalid
classes: must be rejected), "unsupported" (combinations the library refuses explicitly or whose
specified timing is Zeno: no verdict).  `drains`: by construction nothing can be blocked forever.
"""
import itertools, random

Q = 4


def _n(type_, **kw):
    d = {"type": type_}
    d.update(kw)
    return d


def _e(type_, src, dst, **kw):
    d = {"type": type_, "src": src, "dst": dst}
    d.update(kw)
    return d


def line_sbk(blocking=True, iat=(4, 4, 4), cap=2, delay=0, T=80, mode="FIFO", etype="buffer", **ek):
    return {"Q": Q, "T": T, "family": "S-B-K", "expect": "valid", "drains": True,
            "nodes": [_n("source", blocking=blocking, iat=list(iat)), _n("sink")],
            "edges": [_e(etype, 0, 1, cap=cap, delay=delay, mode=mode, **ek)]}


def line_sbmbk(sb=True, iat=(4, 4, 4, 4), c1=2, d1=0, wc=1, pd=(6,), mb=True, c2=1, d2=0, T=120, setup=0,
               pin="FIRST_AVAILABLE", pout="FIRST_AVAILABLE", e1="buffer", e2="buffer", **kw):
    return {"Q": Q, "T": T, "family": "S-B-M-B-K", "expect": "valid", "drains": True,
            "nodes": [_n("source", blocking=sb, iat=list(iat)),
                      _n("machine", wc=wc, pd=list(pd), blocking=mb, policy_in=pin, policy_out=pout, setup=setup),
                      _n("sink")],
            "edges": [_e(e1, 0, 1, cap=c1, delay=d1, **kw.get("k1", {})), _e(e2, 1, 2, cap=c2, delay=d2, **kw.get("k2", {}))]}


def fan_in(pin="FIRST_AVAILABLE", iat1=(4, 4, 4), iat2=(4, 4, 4), wc=1, pd=(3,), caps=(2, 2), T=120, mb=True):
    return {"Q": Q, "T": T, "family": "fan-in", "expect": "valid", "drains": pin == "FIRST_AVAILABLE",
            "nodes": [_n("source", blocking=True, iat=list(iat1)), _n("source", blocking=True, iat=list(iat2)),
                      _n("machine", wc=wc, pd=list(pd), blocking=mb, policy_in=pin), _n("sink")],
            "edges": [_e("buffer", 0, 2, cap=caps[0]), _e("buffer", 1, 2, cap=caps[1]), _e("buffer", 2, 3, cap=2)]}


def fan_out(pout="FIRST_AVAILABLE", iat=(2, 2, 2, 2, 2, 2), wc=1, pd=(1,), caps=(1, 1), T=120, mb=True, one_sink=False,
            slow=(0, 0)):
    nodes = [_n("source", blocking=True, iat=list(iat)), _n("machine", wc=wc, pd=list(pd), blocking=mb, policy_out=pout)]
    if one_sink:
        nodes += [_n("sink")]
        edges = [_e("buffer", 0, 1, cap=2), _e("buffer", 1, 2, cap=caps[0], delay=slow[0]),
                 _e("buffer", 1, 2, cap=caps[1], delay=slow[1])]
    else:
        nodes += [_n("sink"), _n("sink")]
        edges = [_e("buffer", 0, 1, cap=2), _e("buffer", 1, 2, cap=caps[0], delay=slow[0]),
                 _e("buffer", 1, 3, cap=caps[1], delay=slow[1])]
    return {"Q": Q, "T": T, "family": "fan-out", "expect": "valid", "drains": True, "nodes": nodes, "edges": edges}


def fan_in_out(pin="ROUND_ROBIN", pout="ROUND_ROBIN", iat1=(2, 2, 2, 2, 2), iat2=(2, 2, 2, 2, 2), wc=1, pd=(1,), T=120, mb=True, nout=2):
    """two sources -> machine with a policy on BOTH sides -> nout sinks"""
    nodes = [_n("source", blocking=True, iat=list(iat1)), _n("source", blocking=True, iat=list(iat2)),
             _n("machine", wc=wc, pd=list(pd), blocking=mb, policy_in=pin, policy_out=pout)]
    edges = [_e("buffer", 0, 2, cap=2), _e("buffer", 1, 2, cap=2)]
    for k in range(nout):
        nodes.append(_n("sink"))
        edges.append(_e("buffer", 2, 3 + k, cap=2))
    return {"Q": Q, "T": T, "family": "fan-in-out", "expect": "valid", "drains": pin == "FIRST_AVAILABLE", "nodes": nodes, "edges": edges}


def src_fan_out(pout="FIRST_AVAILABLE", blocking=True, iat=(2, 2, 2, 2, 2, 2), caps=(1, 1), delays=(8, 8), T=120):
    return {"Q": Q, "T": T, "family": "src-fan-out", "expect": "valid", "drains": True,
            "nodes": [_n("source", blocking=blocking, iat=list(iat), policy_out=pout), _n("sink"), _n("sink")],
            "edges": [_e("buffer", 0, 1, cap=caps[0], delay=delays[0]), _e("buffer", 0, 2, cap=caps[1], delay=delays[1])]}


def src_two_lines(spout="FIRST_AVAILABLE", sb=True, iat=(1,) * 30, pds=((2,), (3,)), pins=("FIRST_AVAILABLE", 0), caps=(1, 1), T=160):
    """source -> two capacity-1 buffers -> two machines with different delays -> sinks: the source is blocked on both
    buffers and both are freed within one instant, now and then the higher one a few kernel steps before the lower one"""
    nodes = [_n("source", blocking=sb, iat=list(iat), policy_out=spout),
             _n("machine", pd=list(pds[0]), policy_in=pins[0], policy_out=0), _n("machine", pd=list(pds[1]), policy_in=pins[1], policy_out=0),
             _n("sink"), _n("sink")]
    edges = [_e("buffer", 0, 1, cap=caps[0]), _e("buffer", 0, 2, cap=caps[1]), _e("buffer", 1, 3, cap=50), _e("buffer", 2, 4, cap=50)]
    return {"Q": Q, "T": T, "family": "source-two-lines", "expect": "valid", "drains": False, "nodes": nodes, "edges": edges}


def fleet_merge(to_sink=True, pin="FIRST_AVAILABLE", iat1=(1,) * 12, iat2=(1,) * 12, fcap=(2, 2), fdelay=(6, 6), transit=(1, 1), pd=(2,), wc=1, T=160):
    """two sources -> two FLEETS -> one sink (or one machine): both fleets deliver in the same instant, the consumer is
    granted on both, takes one and withdraws the other reservation"""
    nodes = [_n("source", blocking=True, iat=list(iat1)), _n("source", blocking=True, iat=list(iat2))]
    edges = [_e("fleet", 0, 2, cap=fcap[0], delay=fdelay[0], transit=transit[0]), _e("fleet", 1, 2, cap=fcap[1], delay=fdelay[1], transit=transit[1])]
    if to_sink:
        nodes.append(_n("sink"))
    else:
        nodes += [_n("machine", wc=wc, pd=list(pd), policy_in=pin), _n("sink")]
        edges.append(_e("buffer", 2, 3, cap=2))
    return {"Q": Q, "T": T, "family": "fleet-merge", "expect": "valid", "drains": True, "nodes": nodes, "edges": edges}


def comb_split(recipe=(1, 2), piat=(8, 8), iiat=(2, 2, 2, 2, 2), cpd=(4,), spd=(2,), cb=True, spb=True, T=200,
               spout="FIRST_AVAILABLE", two_ing=False, caps=(2, 4, 2, 3), iiat2=None, out_delay=0, out2=None):
    nodes = [_n("source", blocking=True, iat=list(piat), kind="pallet"), _n("source", blocking=True, iat=list(iiat))]
    edges = [_e("buffer", 0, 2 + (1 if two_ing else 0), cap=caps[0]), _e("buffer", 1, 2 + (1 if two_ing else 0), cap=caps[1])]
    if two_ing:
        nodes.append(_n("source", blocking=True, iat=list(iiat2 if iiat2 is not None else iiat)))
        edges.append(_e("buffer", 2, 3, cap=caps[1]))
    c = len(nodes)
    nodes.append(_n("combiner", recipe=list(recipe), pd=list(cpd), blocking=cb))
    nodes.append(_n("splitter", pd=list(spd), blocking=spb, policy_out=spout))
    nodes += [_n("sink"), _n("sink")]
    o2 = out2 or (caps[3], out_delay)          # (capacity, delay) of the splitter's second out-edge
    edges += [_e("buffer", c, c + 1, cap=caps[2]), _e("buffer", c + 1, c + 2, cap=caps[3], delay=out_delay),
              _e("buffer", c + 1, c + 3, cap=o2[0], delay=o2[1])]
    return {"Q": Q, "T": T, "family": "combiner-splitter", "expect": "valid", "drains": False, "nodes": nodes, "edges": edges}


def comb_comb(r1=(1, 1), r2=(1, 2), piat=(6, 6, 6), iat_a=(2, 2, 2), iat_b=(1, 1, 1, 1, 1, 1), pd1=(2,), pd2=(3,), spd=(1,),
              caps=(2, 3, 4, 2, 2, 6), split=True, T=240):
    """two combiners in series: the pallet that reaches the second combiner already carries the items packed by the
    first one (then optionally a splitter that unpacks everything)"""
    nodes = [_n("source", blocking=True, iat=list(piat), kind="pallet"), _n("source", blocking=True, iat=list(iat_a)),
             _n("source", blocking=True, iat=list(iat_b)),
             _n("combiner", recipe=list(r1), pd=list(pd1)), _n("combiner", recipe=list(r2), pd=list(pd2))]
    edges = [_e("buffer", 0, 3, cap=caps[0]), _e("buffer", 1, 3, cap=caps[1]),
             _e("buffer", 3, 4, cap=caps[3]), _e("buffer", 2, 4, cap=caps[2])]
    if split:
        nodes += [_n("splitter", pd=list(spd)), _n("sink")]
        edges += [_e("buffer", 4, 5, cap=caps[4]), _e("buffer", 5, 6, cap=caps[5])]
    else:
        nodes += [_n("sink")]
        edges += [_e("buffer", 4, 5, cap=caps[4])]
    return {"Q": Q, "T": T, "family": "combiner-combiner", "expect": "valid", "drains": False, "nodes": nodes, "edges": edges}


def comb_fanout(recipe=(1, 1), piat=(2, 2, 2, 2, 2, 2), iiat=(1,) * 8, cpd=(1,), cb=False, pout="FIRST_AVAILABLE", caps=(2, 3, 1, 6), mpd=(9,), T=200):
    """a combiner with two out-edges: the first one small and drained by a slow machine, the second one roomy"""
    nodes = [_n("source", blocking=True, iat=list(piat), kind="pallet"), _n("source", blocking=True, iat=list(iiat)),
             _n("combiner", recipe=list(recipe), pd=list(cpd), blocking=cb, policy_out=pout),
             _n("machine", pd=list(mpd)), _n("sink"), _n("sink")]
    edges = [_e("buffer", 0, 2, cap=caps[0]), _e("buffer", 1, 2, cap=caps[1]),
             _e("buffer", 2, 3, cap=caps[2]), _e("buffer", 2, 5, cap=caps[3]), _e("buffer", 3, 4, cap=2)]
    return {"Q": Q, "T": T, "family": "combiner-fan-out", "expect": "valid", "drains": False, "nodes": nodes, "edges": edges}


def pallet_split(mode="LIFO", piat=(1, 1, 1, 1, 1, 1), spd=(4,), cap=4, spb=True, T=160, spin="FIRST_AVAILABLE", delay=0,
                 out_cap=3, out_delay=0, spout="FIRST_AVAILABLE"):
    """pallet source -> buffer (LIFO/FIFO) -> splitter -> buffer -> sink: the splitter reserves the next pallet
    and holds the granted token while its single worker is busy"""
    return {"Q": Q, "T": T, "family": "S(pallet)-B-Sp-B-K", "expect": "valid", "drains": True,
            "nodes": [_n("source", blocking=True, iat=list(piat), kind="pallet"),
                      _n("splitter", pd=list(spd), blocking=spb, policy_in=spin, policy_out=spout), _n("sink")],
            "edges": [_e("buffer", 0, 1, cap=cap, mode=mode, delay=delay), _e("buffer", 1, 2, cap=out_cap, delay=out_delay)]}


def fleet_mid(iat1=(2, 2, 2, 2, 2, 2, 2, 2), iat2=(2, 2, 2, 2, 2, 2, 2, 2), wc=2, pd=(2,), fcap=3, fdelay=8, transit=1, pd2=(1,),
              pout=0, pin2=0, T=160, etype_mid="fleet"):
    """two sources -> buffers -> machine (several workers) -> fleet -> machine -> buffer -> sink: the fleet is filled,
    unloaded and refilled within single instants"""
    return {"Q": Q, "T": T, "family": "2S-B-M-F-M-B-K", "expect": "valid", "drains": True,
            "nodes": [_n("source", blocking=True, iat=list(iat1)), _n("source", blocking=True, iat=list(iat2)),
                      _n("machine", wc=wc, pd=list(pd), policy_out=pout), _n("machine", wc=1, pd=list(pd2), policy_in=pin2), _n("sink")],
            "edges": [_e("buffer", 0, 2, cap=2), _e("buffer", 1, 2, cap=2),
                      _e(etype_mid, 2, 3, cap=fcap, delay=fdelay, transit=transit) if etype_mid == "fleet" else _e("buffer", 2, 3, cap=fcap, delay=fdelay),
                      _e("buffer", 3, 4, cap=2)]}


def chain(count=3, pd=(4,), cap=2, iat=4, blocking=True, sblocking=True, wc=1, bdelay=0, T=240):
    """source -> buffer -> machine x count (buffers in between) -> sink, built by constructs/chain.py"""
    nodes = [_n("source", blocking=sblocking, iat={"const": iat})]
    for k in range(count):
        nodes.append(_n("machine", wc=wc, pd={"const": pd[k % len(pd)]}, blocking=blocking))
    nodes.append(_n("sink"))
    edges = [_e("buffer", i, i + 1, cap=cap, delay=bdelay) for i in range(count + 1)]
    return {"Q": Q, "T": T, "family": "constructs/chain", "expect": "valid", "drains": False, "nodes": nodes, "edges": edges,
            "via": "chain", "chain": {"count": count, "pd": list(pd), "cap": cap, "iat": iat, "blocking": blocking,
                                      "sblocking": sblocking, "wc": wc, "bdelay": bdelay}}


def mesh(rows=2, cols=2, pd=((2, 3), (4, 1)), cap=2, iat=2, pin="FIRST_AVAILABLE", pout="ROUND_ROBIN", spout="ROUND_ROBIN",
         blocking=True, wc=1, bdelay=0, T=200):
    """source -> first row, every machine -> right and down neighbour, last row -> sink, built by constructs/mesh.py
    (edge numbering = the order in which the construct connects them, so every node sees its edges in ascending order)"""
    nodes = [_n("source", blocking=True, iat={"const": iat}, policy_out=spout)]
    idx = {}
    for r in range(rows):
        for c in range(cols):
            idx[(r, c)] = len(nodes)
            nodes.append(_n("machine", wc=wc, pd={"const": pd[r % len(pd)][c % len(pd[r % len(pd)])]}, blocking=blocking,
                            policy_in=pin, policy_out=pout))
    snk = len(nodes)
    nodes.append(_n("sink"))
    edges = []
    for r in range(rows):
        for c in range(cols):
            if c + 1 < cols:
                edges.append(_e("buffer", idx[(r, c)], idx[(r, c + 1)], cap=cap, delay=bdelay))
            if r + 1 < rows:
                edges.append(_e("buffer", idx[(r, c)], idx[(r + 1, c)], cap=cap, delay=bdelay))
    for c in range(cols):
        edges.append(_e("buffer", 0, idx[(0, c)], cap=cap, delay=bdelay))
    for c in range(cols):
        edges.append(_e("buffer", idx[(rows - 1, c)], snk, cap=cap, delay=bdelay))
    return {"Q": Q, "T": T, "family": "constructs/mesh", "expect": "valid", "drains": False, "nodes": nodes, "edges": edges,
            "via": "mesh", "mesh": {"rows": rows, "cols": cols, "pd": [list(x) for x in pd], "cap": cap, "iat": iat, "pin": pin,
                                    "pout": pout, "spout": spout, "blocking": blocking, "wc": wc, "bdelay": bdelay}}


def conveyor_line(etype="conveyor", acc=1, cap=3, slot=4, iat=(6, 6, 6), pd=(4,), T=160, sink_direct=False, sb=True):
    if sink_direct:
        return {"Q": Q, "T": T, "family": "S-conv-K", "expect": "valid", "drains": True,
                "nodes": [_n("source", blocking=sb, iat=list(iat)), _n("sink")],
                "edges": [_e(etype, 0, 1, cap=cap, slot=slot, acc=acc)]}
    return {"Q": Q, "T": T, "family": "S-conv-M-B-K", "expect": "valid", "drains": True,
            "nodes": [_n("source", blocking=sb, iat=list(iat)), _n("machine", pd=list(pd)), _n("sink")],
            "edges": [_e(etype, 0, 1, cap=cap, slot=slot, acc=acc), _e("buffer", 1, 2, cap=2)]}


def conv_mid(etype="slotted", acc=1, cap=3, slot=2, iat=(1, 1, 1, 1, 1, 1, 1, 1), wc=1, pd=(1,), pd2=(5,), wc2=1, T=200):
    """source -> buffer -> machine -> CONVEYOR -> slow machine -> buffer -> sink: items pile up at the exit of the belt,
    the upstream machine is held back by the admission spacing"""
    return {"Q": Q, "T": T, "family": "S-B-M-conv-M-B-K", "expect": "valid", "drains": True,
            "nodes": [_n("source", blocking=True, iat=list(iat)), _n("machine", wc=wc, pd=list(pd)),
                      _n("machine", wc=wc2, pd=list(pd2)), _n("sink")],
            "edges": [_e("buffer", 0, 1, cap=2), _e(etype, 1, 2, cap=cap, slot=slot, acc=acc), _e("buffer", 2, 3, cap=2)]}


def conv_conv(etype="slotted", acc=1, caps=(2, 3), slots=(2, 4), iat=(1,) * 8, pd=(1,), T=240):
    """two conveyors in series with a machine in between: every item rides both (and carries the first ride's stamps)"""
    return {"Q": Q, "T": T, "family": "S-conv-M-conv-K", "expect": "valid", "drains": True,
            "nodes": [_n("source", blocking=True, iat=list(iat)), _n("machine", pd=list(pd)), _n("sink")],
            "edges": [_e(etype, 0, 1, cap=caps[0], slot=slots[0], acc=acc), _e(etype, 1, 2, cap=caps[1], slot=slots[1], acc=acc)]}


def invalid_configs():
    out = []
    c = line_sbk(cap=0); c.update(expect="invalid", family="invalid:capacity0", why="non-positive capacity"); out.append(c)
    c = line_sbk(cap=-1); c.update(expect="invalid", family="invalid:capacity-1", why="non-positive capacity"); out.append(c)
    for m in ("RANDOM", "fifo", "Lifo", "", "FIFO "):
        c = line_sbk(mode=m); c.update(expect="invalid", family="invalid:mode", why="unknown buffer mode"); out.append(c)
    c = line_sbmbk(k1={"mode": "lifo"}); c.update(expect="invalid", family="invalid:mode", why="unknown buffer mode"); out.append(c)
    c = line_sbk(cap=2.5); c.update(expect="invalid", family="invalid:capacity-float", why="non-integer capacity"); out.append(c)
    c = line_sbk(delay=-4); c.update(expect="invalid", family="invalid:negdelay-buffer", why="negative delay"); out.append(c)
    c = line_sbmbk(pd=(-4,)); c.update(expect="invalid", family="invalid:negdelay-machine", why="negative delay"); out.append(c)
    c = line_sbk(blocking=False, iat=(0,)); c["nodes"][0]["iat"] = {"const": 0}
    c.update(expect="invalid", family="invalid:nonblocking-iat0", why="non-blocking source with zero inter-arrival time"); out.append(c)
    c = line_sbmbk(); c["edges"] = c["edges"][:1]
    c.update(expect="invalid", family="invalid:machine-without-out-edge", why="node without the edges it needs"); out.append(c)
    c = line_sbk(); c["nodes"].append(_n("sink"))
    c.update(expect="invalid", family="invalid:sink-without-in-edge", why="node without the edges it needs"); out.append(c)
    c = line_sbmbk(pout=3); c.update(expect="invalid", family="invalid:const-out-of-range", why="out-of-range constant edge index"); out.append(c)
    c = line_sbmbk(pin=2); c.update(expect="invalid", family="invalid:const-in-out-of-range", why="out-of-range constant edge index"); out.append(c)
    c = src_fan_out(pout=5); c.update(expect="invalid", family="invalid:source-const-out-of-range", why="out-of-range constant edge index"); out.append(c)
    c = line_sbmbk(pout={"script": [0, 7]}, iat=(2, 2, 2)); c.update(expect="invalid", family="invalid:script-out-of-range", why="out-of-range index from a callable"); out.append(c)
    # an index outside the range answered by a callable / generator is rejected, not wrapped: NEGATIVE answers on every
    # node type and side (Python would index from the end)
    c = src_fan_out(pout={"script": [0, 1, 0, -1]}); c.update(expect="invalid", family="invalid:source-script-negative", why="negative index from a callable"); out.append(c)
    c = src_fan_out(pout={"script": [0, -2]}, blocking=False); c.update(expect="invalid", family="invalid:source-script-negative", why="negative index from a callable"); out.append(c)
    c = fan_out(pout={"script": [1, -1]}); c.update(expect="invalid", family="invalid:machine-out-script-negative", why="negative index from a callable"); out.append(c)
    c = fan_in(pin={"script": [0, -1]}); c.update(expect="invalid", family="invalid:machine-in-script-negative", why="negative index from a callable"); out.append(c)
    c = comb_split(spout={"script": [0, -1]}); c.update(expect="invalid", family="invalid:splitter-out-script-negative", why="negative index from a callable"); out.append(c)
    c = src_fan_out(pout=-1); c.update(expect="invalid", family="invalid:source-const-negative", why="negative constant edge index"); out.append(c)
    c = fan_out(pout=-1); c.update(expect="invalid", family="invalid:machine-const-negative", why="negative constant edge index"); out.append(c)
    return out


def families(tier):
    """the systematic part"""
    C = []
    # S-B-K
    for blocking, iat, cap, delay in itertools.product([True, False], [(4, 4, 4), (1, 1, 1, 1, 1), (0, 0, 4) if True else ()],
                                                        [1, 2], [0, 2, 6]):
        if not blocking and 0 in iat:
            continue
        C.append(line_sbk(blocking, iat, cap, delay))
    C.append(line_sbk(True, (2, 2, 2, 2), 2, 3, mode="LIFO"))
    C.append(line_sbk(True, (2, 2, 2, 2), 2, 4, etype="fleet", transit=2))
    C.append(line_sbk(False, (2, 2, 2, 2, 2), 2, 6, etype="fleet", transit=1))
    C.append(line_sbk(True, (1, 1, 1, 1, 1, 1), 3, 8, etype="fleet", transit=0))
    # S-B-M-B-K
    for sb, wc, pd, mb, c2 in itertools.product([True, False], [1, 2], [(6,), (0,), (2, 5, 1)], [True, False], [1, 2]):
        C.append(line_sbmbk(sb=sb, iat=(2, 2, 2, 2, 2, 2), wc=wc, pd=pd, mb=mb, c2=c2, d2=4))
    C.append(line_sbmbk(setup=5, T=61))
    C.append(line_sbmbk(setup=3, pd=(2,), T=7))
    C.append(line_sbmbk(T=3))                        # ends before the first item
    C.append(line_sbmbk(iat=(0, 0, 0, 0), c1=1, pd=(0,), c2=1))    # zero-time burst
    C.append(line_sbmbk(e1="fleet", k1={"transit": 1}, d1=4, c1=2, pd=(3,)))
    C.append(line_sbmbk(e2="fleet", k2={"transit": 2}, d2=6, c2=2, pd=(1,), wc=2))
    C.append(line_sbmbk(k1={"mode": "LIFO"}, d1=2, c1=3, iat=(1, 1, 1, 1), pd=(5,)))
    # fan-in / fan-out
    for pin in ["FIRST_AVAILABLE", "ROUND_ROBIN", 0, 1, {"script": [1, 0, 0]}, "RANDOM"]:
        C.append(fan_in(pin=pin))
        C.append(fan_in(pin=pin, iat1=(4, 4), iat2=(1, 1, 1, 1, 1), wc=2, pd=(2, 7)))
    for pout in ["FIRST_AVAILABLE", "ROUND_ROBIN", 0, 1, {"script": [1, 1, 0]}, "RANDOM"]:
        for mb in [True, False]:
            C.append(fan_out(pout=pout, mb=mb, slow=(6, 0)))
            C.append(fan_out(pout=pout, mb=mb, one_sink=True, wc=2, pd=(0, 3), slow=(0, 6)))
        for blocking in [True, False]:
            C.append(src_fan_out(pout=pout, blocking=blocking))
            C.append(src_fan_out(pout=pout, blocking=blocking, caps=(1, 2), delays=(20, 2)))
    for pin, pout, nout in [("ROUND_ROBIN", "ROUND_ROBIN", 2), ("ROUND_ROBIN", "ROUND_ROBIN", 3), ("RANDOM", "RANDOM", 2),
                            ("ROUND_ROBIN", "FIRST_AVAILABLE", 2), ("FIRST_AVAILABLE", "ROUND_ROBIN", 3), (1, 0, 2),
                            ({"script": [0, 1, 1]}, {"script": [1, 0, 0]}, 2)]:
        C.append(fan_in_out(pin=pin, pout=pout, nout=nout))
        C.append(fan_in_out(pin=pin, pout=pout, nout=nout, wc=2, pd=(3, 1), mb=False, iat1=(1, 1, 1, 1, 1, 1), iat2=(3, 3, 3)))
    # several workers finishing in the same instant in front of several out-edges (reserve on all, cancel the rest)
    for wc, iat, pd, caps, slow in [(2, (0, 0, 0, 0, 0, 0), (3,), (1, 1), (5, 0)), (2, (0, 0, 0, 0), (2,), (1, 1), (0, 7)),
                                    (3, (0, 0, 0, 1, 0, 0), (4,), (1, 2), (6, 6)), (2, (1, 0, 1, 0, 1, 0), (2, 2, 3), (1, 1), (9, 2))]:
        for one_sink in (False, True):
            c = fan_out(pout="FIRST_AVAILABLE", iat=iat, wc=wc, pd=pd, caps=caps, slow=slow, one_sink=one_sink)
            c["edges"][0]["cap"] = 3
            c["family"] = "fan-out/simultaneous-workers"
            C.append(c)
    # combiner / splitter
    for recipe, cb, spb, spout in itertools.product([(1, 1), (1, 2)], [True, False], [True, False],
                                                     ["FIRST_AVAILABLE", "ROUND_ROBIN"]):
        C.append(comb_split(recipe=recipe, cb=cb, spb=spb, spout=spout))
    C.append(comb_split(recipe=(1, 2, 1), two_ing=True))
    # big pallets into small, slow out-edges: the out-edges fill up while one pallet is being unpacked
    for spb, spout, cap3 in itertools.product([True, False], ["FIRST_AVAILABLE", "ROUND_ROBIN", 1], [1, 2]):
        C.append(comb_split(recipe=(1, 4), piat=(4, 4, 4), iiat=(1,) * 12, cpd=(2,), spd=(1,), spb=spb, spout=spout,
                            caps=(2, 6, 2, cap3), out_delay=16))
    # odd pallet sizes: with ROUND_ROBIN over two out-edges the pallet itself goes to the other edge than the last item
    for spb, n in itertools.product([True, False], [3, 5]):
        C.append(comb_split(recipe=(1, n), piat=(4, 4, 4), iiat=(1,) * 15, cpd=(1,), spd=(1,), spb=spb, spout="ROUND_ROBIN",
                            caps=(2, 6, 2, 1), out_delay=20))
        # one small slow out-edge, one roomy fast one
        C.append(comb_split(recipe=(1, n), piat=(4, 4, 4), iiat=(1,) * 15, cpd=(1,), spd=(1,), spb=spb, spout="ROUND_ROBIN",
                            caps=(2, 6, 2, 1), out_delay=24, out2=(5, 0)))
        C.append(comb_split(recipe=(1, n), piat=(4, 4, 4), iiat=(1,) * 15, cpd=(1,), spd=(1,), spb=spb, spout="FIRST_AVAILABLE",
                            caps=(2, 6, 2, 1), out_delay=24, out2=(2, 6)))
    # one ingredient starves while the other one is waiting: the tokens of the gather-all batch fire out of list order
    C.append(comb_split(recipe=(1, 1, 1), two_ing=True, piat=(2, 2, 2, 2), iiat=(9, 9, 9, 9), iiat2=(1, 1, 1, 1)))
    C.append(comb_split(recipe=(1, 2, 1), two_ing=True, piat=(0, 6, 6), iiat=(7, 1, 7, 1, 7, 1), iiat2=(0, 0, 5, 5)))
    C.append(comb_split(recipe=(1, 1, 2), two_ing=True, piat=(1, 1, 1), iiat=(10, 10, 10), iiat2=(0, 0, 0, 0, 0, 0)))
    C.append(comb_split(recipe=(1, 2), piat=(40,), iiat=(1, 1, 1, 1)))        # items long before the pallet
    C.append(comb_split(recipe=(1, 3), piat=(2, 2), iiat=(9, 9, 9, 9, 9, 9)))   # starving ingredient
    C.append(comb_split(recipe=(1, 2), cpd=(0,), spd=(0,), iiat=(0, 0, 0, 0), piat=(0, 0)))
    for pout, pin2 in [(0, 0), ("ROUND_ROBIN", "ROUND_ROBIN"), ("FIRST_AVAILABLE", "FIRST_AVAILABLE"), (0, "FIRST_AVAILABLE")]:
        C.append(fleet_mid(pout=pout, pin2=pin2))
        C.append(fleet_mid(pout=pout, pin2=pin2, fcap=2, fdelay=6, transit=0, pd=(0,), pd2=(0,)))
        # the fleet is filled, unloaded and refilled within one instant: feeders slower than the first machine,
        # downstream machine as slow as the feeders
        C.append(fleet_mid(pout=pout, pin2=pin2, iat1=(4,) * 12, iat2=(4,) * 12, pd=(2,), pd2=(4,), fcap=3, fdelay=8, transit=1, T=200))
        C.append(fleet_mid(pout=pout, pin2=pin2, iat1=(4,) * 12, iat2=(4,) * 12, pd=(2,), pd2=(4,), fcap=2, fdelay=12, transit=2, T=200))
        C.append(fleet_mid(pout=pout, pin2=pin2, wc=3, iat1=(1,) * 10, iat2=(1,) * 10, pd=(3,), fcap=4, fdelay=12, transit=2, pd2=(2,)))
    for to_sink, pin in [(True, 0), (False, "FIRST_AVAILABLE"), (False, "ROUND_ROBIN")]:
        C.append(fleet_merge(to_sink, pin))
        C.append(fleet_merge(to_sink, pin, fcap=(1, 1), fdelay=(4, 4), transit=(0, 0)))
        C.append(fleet_merge(to_sink, pin, fcap=(3, 2), fdelay=(8, 4), transit=(2, 0), iat1=(2,) * 10, iat2=(1,) * 10, wc=2))
    for spout, pins, pds in itertools.product(["FIRST_AVAILABLE", "ROUND_ROBIN"], [("FIRST_AVAILABLE", 0), (0, "FIRST_AVAILABLE"), (0, 0), ("ROUND_ROBIN", "FIRST_AVAILABLE")],
                                              [((8,), (12,)), ((12,), (8,)), ((4,), (4,))]):
        C.append(src_two_lines(spout=spout, pins=pins, pds=pds, iat=(4,) * 30))
    C.append(src_two_lines(iat=(0,) * 12, pds=((8,), (12,)), T=120))
    C.append(src_two_lines(sb=False, iat=(1,) * 40, pds=((8,), (12,)), T=120))
    for cb, pout in itertools.product([False, True], ["FIRST_AVAILABLE", "ROUND_ROBIN", 1, 0]):
        C.append(comb_fanout(cb=cb, pout=pout))
    C.append(comb_fanout(cb=False, pout="FIRST_AVAILABLE", caps=(2, 3, 1, 1), mpd=(7,)))        # both out-edges congested at times
    C.append(comb_fanout(cb=True, pout="FIRST_AVAILABLE", caps=(2, 3, 1, 1), mpd=(7,), recipe=(1, 2)))
    for r1, r2, split in [((1, 1), (1, 2), True), ((1, 2), (1, 1), True), ((1, 1), (1, 2), False), ((1, 3), (1, 3), True)]:
        C.append(comb_comb(r1=r1, r2=r2, split=split, iat_a=(2,) * (3 * r1[1]), iat_b=(1,) * (3 * r2[1])))
    for mode, spin, delay in itertools.product(["LIFO", "FIFO"], ["FIRST_AVAILABLE", "ROUND_ROBIN", 0], [0, 2]):
        C.append(pallet_split(mode=mode, spin=spin, delay=delay))
    C.append(pallet_split(mode="LIFO", piat=(0, 0, 0, 3, 0, 0), spd=(2, 5)))
    # empty pallets into a slow, small out-edge: the splitter is blocked with the pallet itself
    for spb, spout in itertools.product([True, False], ["FIRST_AVAILABLE", "ROUND_ROBIN", 0]):
        C.append(pallet_split(mode="FIFO", piat=(2, 2, 2, 2, 2), spd=(1,), spb=spb, spout=spout, out_cap=1, out_delay=10, T=200))
    C.append(line_sbmbk(k1={"mode": "LIFO"}, d1=0, c1=3, iat=(0, 0, 0, 2, 0, 0), pd=(3,), wc=1))
    C.append(line_sbmbk(k1={"mode": "LIFO"}, d1=1, c1=3, iat=(1, 0, 1, 0, 1, 0), pd=(2, 4), wc=2, pin="ROUND_ROBIN"))
    # conveyors
    for etype, acc in itertools.product(["conveyor", "slotted"], [0, 1]):
        C.append(conveyor_line(etype, acc))
        C.append(conveyor_line(etype, acc, sink_direct=True))
        C.append(conveyor_line(etype, acc, iat=(1, 1, 1, 1, 1), pd=(12,)))
        C.append(conveyor_line(etype, acc, sb=False))
    for etype, acc in itertools.product(["conveyor", "slotted"], [0, 1]):
        C.append(conv_mid(etype, acc))
        C.append(conv_mid(etype, acc, cap=2, slot=4, pd2=(3,), iat=(2,) * 8))
        C.append(conv_mid(etype, acc, cap=4, slot=1, pd=(0,), pd2=(2, 6), iat=(0, 0, 0, 3, 0, 0, 5)))
    C.append(conv_mid("slotted", 1, cap=3, slot=2, wc2=2, pd2=(7,), iat=(1,) * 10))
    for etype, acc in itertools.product(["conveyor", "slotted"], [0, 1]):
        C.append(conv_conv(etype, acc))
        C.append(conv_conv(etype, acc, caps=(3, 2), slots=(1, 3), iat=(0, 0, 0, 5, 0, 0), pd=(0,)))
    # two workers of one machine ask for space on the conveyor in the same instant
    for etype, acc in itertools.product(["conveyor", "slotted"], [0, 1]):
        C.append(conv_mid(etype, acc, wc=2, pd=(3,), iat=(0,) * 6))
    for count, pd, cap, iat, blocking, sblocking, wc, bdelay in [(3, (4,), 2, 4, True, True, 1, 0), (4, (2, 6, 3), 1, 2, True, True, 1, 0),
                                                                 (3, (5,), 1, 1, False, False, 2, 2), (2, (0,), 1, 1, True, False, 1, 4),
                                                                 (5, (3, 1), 2, 2, True, True, 2, 1)]:
        C.append(chain(count, pd, cap, iat, blocking, sblocking, wc, bdelay))
    for rows, cols, pd, cap, iat, pin, pout, spout, blocking, wc, bdelay in [
            (2, 2, ((2, 3), (4, 1)), 2, 2, "FIRST_AVAILABLE", "ROUND_ROBIN", "ROUND_ROBIN", True, 1, 0),
            (2, 2, ((3, 3), (5, 2)), 1, 1, "ROUND_ROBIN", "FIRST_AVAILABLE", "FIRST_AVAILABLE", True, 1, 0),
            (1, 3, ((2, 5, 3),), 2, 2, "FIRST_AVAILABLE", "FIRST_AVAILABLE", "ROUND_ROBIN", True, 2, 1),
            (3, 1, ((2,), (6,), (1,)), 1, 3, "ROUND_ROBIN", "ROUND_ROBIN", "FIRST_AVAILABLE", False, 1, 0),
            (2, 3, ((4, 2, 3), (1, 5, 2)), 2, 1, "ROUND_ROBIN", "ROUND_ROBIN", "ROUND_ROBIN", True, 2, 2)]:
        C.append(mesh(rows, cols, pd, cap, iat, pin, pout, spout, blocking, wc, bdelay))
    # the scenarios of the repository's own tests (tests/test_machine.py), shorter horizon: their histories are free,
    # realistic inputs; their assertions are irrelevant here
    for iat, pd, wc, c1, c2, d1, d2 in [(4, 4, 1, 4, 1, 0, 0), (1, 4, 1, 4, 1, 0, 0), (8, 12, 1, 4, 1, 0, 0), (4, 4, 5, 4, 1, 0, 0),
                                        (2, 4, 5, 4, 1, 0, 0), (8, 12, 5, 4, 1, 0, 0), (4, 4, 1, 4, 1, 0, 12), (2, 8, 1, 4, 1, 0, 12),
                                        (4, 8, 1, 4, 1, 4, 12), (4, 4, 5, 4, 1, 0, 12), (2, 8, 5, 4, 1, 0, 12), (4, 8, 5, 4, 1, 0, 12)]:
        c = line_sbmbk(sb=False, c1=c1, d1=d1, wc=wc, mb=True, c2=c2, d2=d2, T=400)
        c["nodes"][0]["iat"] = {"const": iat}
        c["nodes"][1]["pd"] = {"const": pd}
        c["family"] = "repo-tests/test_pipeline_stats"
        c["drains"] = False
        C.append(c)
    c = fan_in(pin="ROUND_ROBIN", wc=2, pd=(8,), caps=(2, 2), T=400)
    for k in (0, 1):
        c["nodes"][k].update(blocking=False, iat={"const": 2})
    c["edges"][2].update(delay=24, cap=2)
    c["family"] = "repo-tests/test_machine_processes_multiple_inputs"
    c["drains"] = False
    C.append(c)
    # set-up periods on every kind of work node (the first families had them on machines only): items that arrive
    # during the set-up wait, end times during and exactly at the end of the set-up
    def with_setup(c, setups, T=None, fam="setup"):
        k = 0
        for x in c["nodes"]:
            if x["type"] in ("machine", "splitter", "combiner"):
                x["setup"] = setups[k % len(setups)]
                k += 1
        if T is not None:
            c["T"] = T
        c["family"] = fam + "/" + c["family"]
        return c
    for setups, T in [((5,), None), ((3, 9), None), ((12, 2), 90), ((7,), 4), ((7,), 7), ((6, 6), 30)]:
        C.append(with_setup(comb_split(recipe=(1, 2), piat=(2, 2, 2), iiat=(1,) * 8, cpd=(3,), spd=(1,)), setups, T))
        C.append(with_setup(pallet_split(mode="FIFO", piat=(1, 1, 1, 1), spd=(2,)), setups, T))
        C.append(with_setup(comb_comb(), setups, T))
        C.append(with_setup(fan_in(pin="ROUND_ROBIN", wc=2, pd=(2, 5)), setups, T))
        C.append(with_setup(comb_split(recipe=(1, 1), cb=False, spb=False, piat=(1, 1, 1, 1), iiat=(1,) * 6, cpd=(2,), spd=(3,),
                                       caps=(1, 1, 1, 1)), setups, T))
    C += invalid_configs()
    for i, c in enumerate(C):
        c["name"] = "fam%03d" % i
    return C


def random_config(rng, i):
    kind = rng.choice(["sbk", "sbmbk", "sbmbk", "fanin", "fanout", "srcfan", "comb", "psplit", "fleetmid", "faninout"])
    iat = tuple(rng.choice([0, 1, 2, 3, 5, 8]) for _ in range(rng.randint(2, 8)))
    pd = tuple(rng.choice([0, 1, 2, 4, 7]) for _ in range(rng.randint(1, 3)))
    pol = lambda n: rng.choice(["FIRST_AVAILABLE", "ROUND_ROBIN", "RANDOM", rng.randrange(n),
                                {"script": [rng.randrange(n) for _ in range(3)]}])
    T = rng.choice([40, 77, 120, 161])
    if kind == "sbk":
        b = rng.random() < 0.5
        if not b:
            iat = tuple(x or 1 for x in iat)
        et = rng.choice(["buffer", "buffer", "fleet"])
        c = line_sbk(b, iat, rng.randint(1, 3), rng.choice([0, 1, 4]), T=T, etype=et,
                     **({"transit": rng.choice([0, 1, 3])} if et == "fleet" else {"mode": rng.choice(["FIFO", "LIFO"])}))
        if et == "fleet":
            c["edges"][0]["delay"] = rng.choice([2, 4, 9])
    elif kind == "sbmbk":
        sb = rng.random() < 0.6
        if not sb:
            iat = tuple(x or 2 for x in iat)
        c = line_sbmbk(sb=sb, iat=iat, c1=rng.randint(1, 3), d1=rng.choice([0, 2]), wc=rng.randint(1, 3), pd=pd,
                       mb=rng.random() < 0.6, c2=rng.randint(1, 2), d2=rng.choice([0, 3, 9]), T=T,
                       setup=rng.choice([0, 0, 3]))
    elif kind == "fanin":
        c = fan_in(pin=pol(2), iat1=iat, iat2=tuple(rng.choice([1, 2, 6]) for _ in range(4)), wc=rng.randint(1, 2), pd=pd,
                   caps=(rng.randint(1, 2), rng.randint(1, 2)), T=T, mb=rng.random() < 0.7)
    elif kind == "fanout":
        if rng.random() < 0.4:
            iat = tuple(rng.choice([0, 0, 1]) for _ in range(rng.randint(3, 7)))
            pd = (rng.choice([1, 2, 4]),)
        c = fan_out(pout=pol(2) if rng.random() < 0.6 else "FIRST_AVAILABLE", iat=iat, wc=rng.randint(1, 3), pd=pd, caps=(rng.randint(1, 2), rng.randint(1, 2)), T=T,
                    mb=rng.random() < 0.5, one_sink=rng.random() < 0.4, slow=(rng.choice([0, 5]), rng.choice([0, 9])))
    elif kind == "srcfan":
        b = rng.random() < 0.5
        if not b:
            iat = tuple(x or 1 for x in iat)
        c = src_fan_out(pout=pol(2), blocking=b, iat=iat, caps=(rng.randint(1, 2), rng.randint(1, 2)),
                        delays=(rng.choice([0, 4, 12]), rng.choice([0, 4, 12])), T=T)
    elif kind == "faninout":
        nout = rng.randint(2, 3)
        c = fan_in_out(pin=pol(2), pout=pol(nout), iat1=iat, iat2=tuple(rng.choice([1, 2, 4]) for _ in range(5)), wc=rng.randint(1, 2),
                       pd=pd, T=T, mb=rng.random() < 0.6, nout=nout)
    elif kind == "fleetmid":
        r = rng.choice([1, 2, 2, 3])
        c = fleet_mid(iat1=(r,) * rng.randint(4, 10), iat2=(rng.choice([r, r, 1, 3]),) * rng.randint(4, 10), wc=rng.randint(1, 3),
                      pd=(rng.choice([0, 1, 2, 4]),), fcap=rng.randint(1, 4), fdelay=rng.choice([3, 8, 12]), transit=rng.choice([0, 1, 2]),
                      pd2=(rng.choice([0, 1, 3]),), pout=rng.choice([0, "ROUND_ROBIN", "FIRST_AVAILABLE"]),
                      pin2=rng.choice([0, "ROUND_ROBIN", "FIRST_AVAILABLE"]), T=T)
    elif kind == "psplit":
        c = pallet_split(mode=rng.choice(["LIFO", "FIFO"]), piat=tuple(rng.choice([0, 1, 2, 4]) for _ in range(rng.randint(3, 7))),
                         spd=(rng.choice([1, 3, 6]),), cap=rng.randint(2, 4), spb=rng.random() < 0.7, T=T,
                         spin=rng.choice(["FIRST_AVAILABLE", "ROUND_ROBIN", 0]), delay=rng.choice([0, 0, 2]),
                         out_cap=rng.randint(1, 3), out_delay=rng.choice([0, 0, 6, 12]), spout=rng.choice(["FIRST_AVAILABLE", "ROUND_ROBIN", 0]))
    else:
        two = rng.random() < 0.4
        c = comb_split(recipe=(1, rng.randint(1, 4)) if not two else (1, rng.randint(1, 2), rng.randint(1, 2)), two_ing=two,
                       out_delay=rng.choice([0, 0, 8, 20]), caps=(2, 4, 2, rng.randint(1, 3)),
                       iiat2=tuple(rng.choice([0, 1, 4, 9]) for _ in range(6)) if two else None,
                       piat=tuple(rng.choice([0, 3, 8]) for _ in range(3)),
                       iiat=tuple(rng.choice([0, 1, 2, 5]) for _ in range(7)), cpd=(rng.choice([0, 2, 5]),),
                       spd=(rng.choice([0, 1, 3]),), cb=rng.random() < 0.6, spb=rng.random() < 0.6, T=T,
                       spout=rng.choice(["FIRST_AVAILABLE", "ROUND_ROBIN", 0, 1]))
    c["name"] = "rnd%04d" % i
    c["family"] += "/random"
    return c


def all_configs(tier, seed):
    C = families(tier)
    rng = random.Random("factory-%d" % seed)
    n = 120 if tier == "quick" else 2500
    C += [random_config(rng, i) for i in range(n)]
    C += shifted(C, seed, 40 if tier == "quick" else 500)
    C += ctor_wired(C, seed, 40 if tier == "quick" else 500)
    return C


def ctor_wired(C, seed, n):
    """the "ctor" family: the same factories wired the other documented way -- every node gets its in_edges / out_edges
    lists at construction time and the edges are connected afterwards too (as tests/test_machine.py does)"""
    import copy
    rng = random.Random("factory-ctor-%d" % seed)
    valid = [c for c in C if c.get("expect", "valid") == "valid" and not c.get("via") and not c.get("t0") and not c.get("order")]
    first = [c for c in valid if not c["family"].endswith("/random")]
    pick = first[::max(1, len(first) // 25)] + rng.sample(valid, min(n, len(valid)))
    out = []
    for k, c in enumerate(pick):
        c = copy.deepcopy(c)
        c["wiring"] = "ctor"
        c["name"] = "%s@ctor#%d" % (c["name"], k)
        c["family"] = "ctor/" + c["family"]
        out.append(c)
    return out


def shifted(C, seed, n):
    """the "shifted" family: members of the corpus run in an Environment whose initial_time is not zero (cfg["t0"] ticks).
    Recorded times are relative to the start, so every clause about item movement applies unchanged: a component that
    computes with the absolute clock where the statement speaks of durations (a set-up period "until clock value s",
    a first inter-arrival or fleet period measured from zero) behaves differently only here."""
    import copy
    rng = random.Random("factory-shift-%d" % seed)
    valid = [c for c in C if c.get("expect", "valid") == "valid" and not c.get("via")]
    withsetup = [c for c in valid if any(x.get("setup", 0) > 0 for x in c["nodes"])]
    pick = withsetup[:12] + rng.sample(valid, min(n, len(valid)))
    out = []
    for k, c in enumerate(pick):
        c = copy.deepcopy(c)
        c["t0"] = rng.choice([1, 3, 8, 21, 64])
        if rng.random() < 0.5:           # give more nodes a set-up period
            for x in c["nodes"]:
                if x["type"] in ("machine", "splitter", "combiner") and not x.get("setup"):
                    x["setup"] = rng.choice([0, 2, 5])
        c["name"] = "%s@t0=%d#%d" % (c["name"], c["t0"], k)
        c["family"] = "shifted/" + c["family"]
        out.append(c)
    return out
