"""Belt engine (serves C12, C13): ConveyorRef.tla model-checked by TLC (leg A, also proves the closed forms the
trace oracle uses), scripted producer/consumer runs of the REAL conveyor edges (leg B), Trace_Conveyor.tla (leg C)."""
import itertools, json, os, random, time, multiprocessing as mp
from . import common, tlc, tracecheck

PROPS = ["C12", "C13"]
T_BELT = {
    "C12": (["T_C12_Cap", "T_C12_Order", "T_C12_TakeOrder"], ["T_C12_Spacing", "T_C12_MinTravel", "T_C12_ExactIfFree"]),
    "C13": (["T_C13_AdmitToCap"], ["T_C13_NoAdmit", "T_C13_Frozen", "T_C13_CloseUp"]),
}
WF = (["T_WF"], ["T_TimeMonotone"])
R_INV = {"C12": ["R_C12_Cap", "R_C12_Order", "R_C12_MinTravel", "R_C12_OfferOrder"],
         "C13": ["R_C13_NoOverlap", "R_C13_FrozenClosedForm", "R_C13_CloseUpClosedForm", "R_C13_AdmitToCap"]}
R_PROP = {"C12": ["R_C12_Spacing"], "C13": ["R_C13_NoAdmitWhenStalled", "R_C13_FrozenWhenStalled", "R_C13_StoppedTouches"]}
Q = 4


def belt_configs(tier, seed):
    C = []
    arr = {"regular": [0, 6, 12, 18, 24, 30], "burst": [0, 0, 0, 0, 0, 0, 40, 40, 40], "irregular": [0, 1, 7, 8, 9, 21, 22, 30, 31],
           "one": [3], "two_close": [0, 2], "late": [0, 25, 26]}
    serv = {"immediate": [-1], "late": [9], "mixed": [0, 7, 0, 3], "long_first": [30, 0, 0], "repeated": [5, 5, 5, 5],
            "one_tick": [1]}
    for typ, acc, (cap, slot), (an, a), (sn, s) in itertools.product(["conveyor", "slotted"], [0, 1], [(3, 4), (2, 2), (4, 1)],
                                                                      arr.items(), serv.items()):
        C.append({"type": typ, "acc": acc, "cap": cap, "slot": slot, "Q": Q, "T": 240, "arrivals": a, "service": s,
                  "pattern": "%s/%s" % (an, sn)})
    rng = random.Random("belt-%d" % seed)
    for i in range(100 if tier == "quick" else 3000):
        n = rng.randint(1, 10)
        t = 0
        a = []
        for _ in range(n):
            t += rng.choice([0, 0, 1, 2, 3, 5, 8, 13])
            a.append(t)
        C.append({"type": rng.choice(["conveyor", "slotted"]), "acc": rng.choice([0, 1]), "cap": rng.randint(1, 5),
                  "slot": rng.choice([1, 2, 3, 4, 8]), "Q": Q, "T": 400, "arrivals": a,
                  "service": [rng.choice([-1, -1, 0, 1, 2, 6, 15]) for _ in range(rng.randint(1, 4))], "pattern": "random"})
    # a reservation that is granted, held and withdrawn while another request waits (FIRST_AVAILABLE nodes do this)
    for typ, acc, (cap, slot) in itertools.product(["conveyor", "slotted"], [0, 1], [(3, 2), (4, 1), (2, 4)]):
        L = cap * slot
        arr = [i * slot for i in range(cap - 1)] + [L + 3 * slot]          # cap-1 items, then one more request later
        for cancel_at in (L + 4 * slot, L + 6 * slot):
            C.append({"type": typ, "acc": acc, "cap": cap, "slot": slot, "Q": Q, "T": 60 * slot + 200, "arrivals": arr,
                      "service": [10 * L, 0, 0, 0], "pattern": "hold-and-cancel",
                      "holders": [{"at": L + 2 * slot, "cancel": cancel_at}]})
            C.append({"type": typ, "acc": acc, "cap": cap, "slot": slot, "Q": Q, "T": 60 * slot + 200, "arrivals": arr,
                      "service": [-1], "pattern": "hold-and-cancel/free-flow",
                      "holders": [{"at": L + 2 * slot, "cancel": cancel_at}]})
    # a few runs with several producers asking in the same instant (two workers of one machine)
    for typ, acc in itertools.product(["conveyor", "slotted"], [0, 1]):
        C.append({"type": typ, "acc": acc, "cap": 3, "slot": 2, "Q": Q, "T": 200, "arrivals": [0, 0, 9, 9, 9], "service": [-1],
                  "pattern": "concurrent", "concurrent": True})
    # a stall that begins while a follower is in transit (or just entering), and a request for space that arrives
    # during the stall: long stall, short stall, repeated stalls; geometry-relative instants
    for typ, acc, (cap, slot) in itertools.product(["conveyor", "slotted"], [0, 1], [(3, 4), (4, 1), (5, 2), (4, 3), (10, 2), (8, 1)]):
        L = cap * slot
        for an, a in [("follower+request", [0, 2 * slot, L + slot]), ("wide", [0, 4 * slot, L + 2 * slot, L + 5 * slot]), ("entering", [0, L - slot // 2 if slot > 1 else L - 1, L + 2 * slot]),
                      ("three", [0, slot, 3 * slot, L + 1, L + 2 * slot + 1])]:
            for sn, sv in [("long", [4 * L, 0, 0, 0, 0]), ("one-length", [L, 0, 0, 0, 0]), ("short", [slot, 0, 2 * slot, 0]), ("again", [L, L, L, L]),
                           ("odd", [slot + 1, 1, L + 1])]:
                C.append({"type": typ, "acc": acc, "cap": cap, "slot": slot, "Q": Q, "T": 20 * L + 200, "arrivals": a, "service": sv,
                          "pattern": "stall/%s/%s" % (an, sn)})
    # items that have ridden another conveyor before (they carry that ride's stamps); a producer faster than one slot
    for typ, acc, (cap, slot) in itertools.product(["conveyor", "slotted"], [0, 1], [(3, 4), (4, 2), (2, 2)]):
        for an, a in [("fast", [0, 1, 2, 3, 4, 5]), ("burst", [0, 0, 0, 0, 2 * cap * slot, 2 * cap * slot])]:
            C.append({"type": typ, "acc": acc, "cap": cap, "slot": slot, "Q": Q, "T": 20 * cap * slot + 100, "arrivals": a,
                      "service": [-1], "pattern": "prestamped/%s" % an, "prestamp": True})
    for i, c in enumerate(C):
        c["name"] = "belt%04d" % i
    return C


def _run_chunk(args):
    cfgs, out = args
    os.environ["FACTORYSIMPY_VERIF"] = "1"
    import sys
    sys.stdout = open(os.devnull, "w")      # the library prints from generator finalisers as well
    from . import belt_driver
    res = []
    for c in cfgs:
        try:
            tr = belt_driver.run_belt(c)
        except BaseException as ex:  # noqa
            tr = {"cfg": {k: c[k] for k in ("type", "cap", "slot", "acc", "T")}, "name": c["name"], "ev": [],
                  "outcome": "harness_failure", "err": "%s: %s" % (type(ex).__name__, ex)}
        tr["pattern"] = c.get("pattern", "")
        tr["orig"] = json.dumps(c)
        res.append(tr)
    common.save_json(out, res)
    return [(r["name"], r["outcome"], len(r["ev"]), r["err"][:100]) for r in res]


def corpus(tier, seed):
    key = "%s-%s-%s-%s" % (common.src_hash(), common.harness_hash(), tier, seed)
    d = common.cache_dir("belt_corpus", key)
    stp = os.path.join(d, "stats.json")
    st = common.load_json(stp)
    if st is not None:
        return d, st
    t0 = time.time()
    C = belt_configs(tier, seed)
    n = 12
    with mp.Pool(12) as pool:
        outs = pool.map(_run_chunk, [(C[i::n], os.path.join(d, "runs_%02d.json" % i)) for i in range(n)])
    runs = [r for o in outs for r in o]
    st = {"runs": len(runs), "events": sum(r[2] for r in runs), "wall": round(time.time() - t0, 1),
          "outcomes": {}, "non_ok": [r for r in runs if r[1] != "ok"][:30]}
    for r in runs:
        st["outcomes"][r[1]] = st["outcomes"].get(r[1], 0) + 1
    common.save_json(stp, st)
    return d, st


def _legC_one(args):
    fname, d = args
    traces = common.load_json(os.path.join(d, fname))
    invs, props = list(WF[0]), list(WF[1])
    for k, (i, p) in T_BELT.items():
        invs += i
        props += p
    viol, r = tracecheck.check_batch("Trace_Conveyor", traces, invs, props, workers=4, timeout=1200, tag=fname)
    out = {"file": fname, "tlc": r.as_dict(), "violations": viol, "traces": len(traces), "events": sum(len(t["ev"]) for t in traces)}
    if not r.completed or r.errors:
        out["tail"] = r.stdout[-2000:]
    return out


def leg_c(d):
    p = os.path.join(d, "legC-%s.json" % common.spec_hash())
    res = common.load_json(p)
    if res is not None:
        return res
    files = sorted(f for f in os.listdir(d) if f.startswith("runs_"))
    with mp.Pool(4) as pool:
        outs = pool.map(_legC_one, [(f, d) for f in files])
    res = {o["file"]: o for o in outs}
    common.save_json(p, res)
    return res


def _legA_one(args):
    cap, slot, acc, maxt = args
    invs = [x for v in R_INV.values() for x in v]
    props = [x for v in R_PROP.values() for x in v]
    cfg = tlc.make_cfg(dict(Cap=cap, Slot=slot, Acc=acc, MaxT=maxt), invariants=invs, properties=props)
    r = tlc.run_tlc("ConveyorRef", cfg, workers=4, timeout=1200, tag="%s%s%s" % (cap, slot, acc))
    o = r.as_dict()
    o["name"] = "cap%d_slot%d_%s_T%d" % (cap, slot, "acc" if acc else "nonacc", maxt)
    return o


def leg_a(tier):
    p = os.path.join(common.cache_dir("legA"), "belt-%s-%s.json" % (tier, common.spec_hash()))
    res = common.load_json(p)
    if res is not None:
        return res
    jobs = [(2, 1, True, 8), (2, 1, False, 8), (3, 2, True, 12), (3, 2, False, 12), (2, 3, True, 12), (1, 2, False, 10)]
    if tier != "quick":
        jobs += [(3, 1, True, 12), (3, 1, False, 14), (4, 2, True, 16), (4, 2, False, 18), (2, 4, True, 18), (3, 3, False, 20)]
    with mp.Pool(4) as pool:
        outs = pool.map(_legA_one, jobs)
    res = {o["name"]: o for o in outs}
    common.save_json(p, res)
    return res


def classify(tr, l, clause):
    """A coarse description of HOW a clause failed, for the signatures of known findings (the verdict itself is TLC's)."""
    ev = tr["ev"]
    e = ev[l - 1] if l and l <= len(ev) else {"k": "?", "it": 0, "t": 0}
    cap, slot = tr["cfg"]["cap"], tr["cfg"]["slot"]
    L = cap * slot
    t_of = {}
    for x in ev[:l]:
        t_of.setdefault((x["k"], x["it"]), x["t"])
    x = e["it"]
    if clause == "T_C12_Spacing":
        enters = [y for y in ev[:l] if y["k"] == "enter"]
        if len(enters) >= 2 and enters[-1]["t"] == enters[-2]["t"]:
            return "two_grants_in_one_instant"
        return "other"
    if clause == "T_C13_NoAdmit":
        # how many items were on the belt (waiting head included) when the reservation was granted
        return "granted_while_head_waits" if e.get("n", 0) <= 1 else "granted_while_head_waits_and_items_travel"
    slotted = tr["cfg"]["type"] == "slotted"
    # the slotted conveyor never holds anything back: every item is offered exactly Cap*Slot after it entered.  Its known
    # findings are exactly that behaviour; anything else on a slotted belt is a different failure.
    plain_travel = e["t"] == t_of.get(("enter", x), -99) + L
    if clause == "T_C13_Frozen":
        if slotted:
            return "never_stopped" if plain_travel else "other_travel_time"
        # continuous belt: did the item enter while the belt was stalled (head offered, nobody holds a reservation)?
        stalled, entered_in_stall = False, False
        for y in ev[:l]:
            if y["k"] == "enter" and y["it"] == x:
                entered_in_stall = stalled
            stalled = y.get("rd", 0) > 0 and y.get("gg", 0) == 0
        return "advanced_during_stall" if entered_in_stall else "advanced_during_stall_though_on_the_belt_before_it"
    if clause == "T_C13_CloseUp":
        order = [y["it"] for y in ev[:l] if y["k"] == "enter"]
        pred = order[order.index(x) - 1] if x in order and order.index(x) > 0 else 0
        if pred and ("take", pred) not in t_of:
            return "offered_while_predecessor_waits" if (plain_travel or not slotted) else "offered_while_predecessor_waits_other_travel_time"
        exp = max(t_of.get(("enter", x), 0) + L, (t_of.get(("take", pred), -10 ** 6) + slot) if pred else -10 ** 6)
        if e["t"] > exp:
            return "late" if e["t"] - exp <= 2 * slot else "late_by_more_than_two_item_lengths"
        if slotted:
            return "early" if plain_travel else "early_other_travel_time"
        return "early"
    if clause == "T_C13_AdmitToCap":
        prev = [y for y in ev[:l] if y["k"] in ("take", "cancel", "enter", "offer")]
        return "late_admission" if not prev or prev[-1]["k"] != "cancel" else "not_admitted_after_cancel"
    return "other"


def run(prop, tier, seed):
    la = leg_a(tier)
    d, st = corpus(tier, seed)
    lc = leg_c(d)
    inv, act = T_BELT[prop]
    mine = set(inv) | set(act)
    mach, violations = [], []
    ntr = nev = 0
    for fname, r in sorted(lc.items()):
        ntr += r["traces"]
        nev += r["events"]
        t = r["tlc"]
        if not t["completed"] or t["timed_out"] or t["errors"]:
            mach.append("leg C %s: TLC did not complete %s %s" % (fname, t["errors"][:1], r.get("tail", "")[-400:]))
        traces = None
        seen = set()
        for v in r["violations"]:
            if v["clause"] in WF[0] + WF[1]:
                mach.append("malformed belt trace %s tid %s step %s (%s)" % (fname, v["tid"], v["l"], v["clause"]))
            if v["clause"] in mine:
                if traces is None:
                    traces = common.load_json(os.path.join(d, fname))
                tr = traces[v["tid"] - 1]
                # every violated step is classified (not only the first of a run): a new kind of failure later in a run
                # that starts with a known one is still reported
                kind = classify(tr, v["l"], v["clause"])
                if (v["clause"], v["tid"], kind) in seen:
                    continue
                seen.add((v["clause"], v["tid"], kind))
                violations.append({"clause": v["clause"], "engine": "belt", "component": tr["cfg"]["type"], "acc": tr["cfg"]["acc"],
                                   "kind": kind,
                                   "config": tr["name"], "pattern": tr.get("pattern"), "step": v["l"], "cfg": tr["cfg"],
                                   "orig": tr.get("orig"), "events": tr["ev"][:(v["l"] or 0) + 1][-40:]})
    # crashes of the real conveyor under the scripts are reported under both (the run is cut short)
    uniq = {}
    for v in violations:
        uniq.setdefault((v["clause"], v["component"], v["acc"], v["kind"]), v)
    counts = {}
    for v in violations:
        kk = (v["clause"], v["component"], v["acc"], v["kind"])
        counts[kk] = counts.get(kk, 0) + 1
    violations = list(uniq.values())
    for v in violations:
        v["occurrences"] = counts[(v["clause"], v["component"], v["acc"], v["kind"])]
    states = sum(r["distinct"] for r in la.values())
    trans = sum(r["generated"] for r in la.values())
    for n, r in la.items():
        if not r["completed"] or r["errors"]:
            mach.append("leg A %s did not complete %s" % (n, r["errors"][:1]))
        for kind, name in r["violations"]:
            mach.append("ConveyorRef violates %s in %s (reference model / closed form wrong)" % (name, n))
    slotted_model = []
    store_level = {"traces": 0, "events": 0}
    if prop == "C12":
        # the slotted conveyor under arbitrary call sequences: graph walks, random histories and cancellation scenarios of
        # the store engine, judged by TLC with the ledger clauses T_C12_MinTravelS / T_C12_OrderS
        from . import store_engine as _se
        d2, _st2 = _se.corpus(tier, seed)
        for fname, r in sorted(_se.leg_c(d2).items()):
            if "slotted" not in fname:
                continue
            store_level["traces"] += r["traces"]
            store_level["events"] += r["events"]
            t = r["tlc"]
            if not t["completed"] or t["timed_out"] or t["errors"]:
                mach.append("leg C (store level) %s: TLC did not complete %s" % (fname, t["errors"][:1]))
            trs = None
            seen2 = set()
            for v in r["violations"]:
                if v["clause"] in ("T_C12_MinTravelS", "T_C12_OrderS") and (v["clause"], v["tid"]) not in seen2:
                    seen2.add((v["clause"], v["tid"]))
                    if trs is None:
                        trs = common.load_json(os.path.join(d2, fname))
                    tr = trs[v["tid"] - 1]
                    violations.append({"clause": v["clause"], "engine": "store-trace", "component": "slotted", "acc": tr["cfg"].get("acc", 1),
                                       "kind": "store_level", "config": fname, "step": v["l"], "cfg": tr["cfg"],
                                       "events": tr["ev"][:(v["l"] or 0) + 1], "source": tr.get("src")})
    if prop == "C12":
        # the slotted belt store is also a kind of StoreCore (exhaustive model + graph walk on the real class in the store
        # engine); its design-level travel-time / order clause belongs to C12
        from . import store_engine
        for n, r in store_engine.leg_a(tier).items():
            if n.startswith("slotted"):
                slotted_model.append({"config": n, "distinct": r["distinct"]})
                states += r["distinct"]
                trans += r["generated"]
                if not r["completed"] or r["errors"]:
                    mach.append("leg A %s did not complete %s" % (n, r["errors"][:1]))
                for kind, name in r["violations"]:
                    if name == "M_C12_Travel":
                        mach.append("Store model (kind slotted) violates %s in %s" % (name, n))
    f0 = sorted(lc)[0]
    samples = [{"config": t["name"], "cfg": t["cfg"], "pattern": t.get("pattern"),
                "events": ["%s(%d)@%d" % (e["k"], e["it"], e["t"]) for e in t["ev"][:16]]}
               for t in common.load_json(os.path.join(d, f0))[:3]]
    coverage = {"states": states, "transitions": trans, "traces_validated_against_impl": ntr, "samples": samples,
                "legA_configs": [{"config": n, "distinct": r["distinct"]} for n, r in la.items()] + slotted_model,
                "legA_clauses": R_INV[prop] + R_PROP[prop], "legC_clauses": sorted(mine), "legC_events_judged": nev,
                "store_level_slotted_traces": store_level,
                "runs_of_real_conveyors": st["runs"], "outcomes": st["outcomes"], "exhaustive": False,
                "evaluations": nev, "distinct_nontrivial": st["runs"],
                "rule": "producer/consumer scripts (systematic patterns x geometries x both conveyor classes x both modes, "
                        "plus seeded random scripts) on the real edges; every recorded event judged by TLC"}
    assumptions = ["geometry on a rational grid: one item length = Slot ticks, belt = Cap item lengths, all script times on the tick grid",
                   "the consumer reserves and takes in one instant, so 'head waits unreserved' and 'head waits' coincide",
                   "the implementation-shaped belt model (BeltImpl) is not built; leg A is the reference model ConveyorRef, "
                   "which also proves the closed forms the trace oracle uses",
                   "TLC, Json/IOUtils, SimPy are trusted"]
    summary = "%d scripted runs of real conveyors, %d events judged, models (ConveyorRef + slotted store) %d states" % (st["runs"], nev, states)
    return {"violations": violations, "machinery_errors": mach, "level": "model_checking", "coverage": coverage,
            "assumptions": assumptions, "summary": summary}


def replay(prop, path):
    from . import belt_driver
    v = common.load_json(path)
    if v and v.get("engine") == "store-trace":
        from . import store_check
        return store_check.replay(prop, path)
    if not v or not v.get("orig"):
        print("cannot read", path)
        return 2
    os.environ["FACTORYSIMPY_VERIF"] = "1"
    tr = belt_driver.run_belt(json.loads(v["orig"]))
    inv, act = T_BELT[prop]
    viol, r = tracecheck.check_batch("Trace_Conveyor", [tr], inv, act, workers=1, tag="replay")
    for x in {x["clause"] for x in viol}:
        print("replayed: clause %s violated" % x)
    return 1 if viol else 0
