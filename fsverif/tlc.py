"""Thin wrapper around TLC: generate a .cfg, run, parse the verdict lines."""
import hashlib, os, re, shutil, subprocess, time, json

VERIF = os.path.dirname(os.path.dirname(os.path.abspath(__file__)))
SPEC = os.path.join(VERIF, "spec")
CACHE = os.path.join(VERIF, ".cache")
JAR = "/opt/veriftools/tla/tla2tools.jar"
CM = "/opt/veriftools/tla/CommunityModules-deps.jar"


def tla_value(v):
    if isinstance(v, bool):
        return "TRUE" if v else "FALSE"
    if isinstance(v, int):
        return str(v)
    if isinstance(v, str):
        return '"%s"' % v
    if isinstance(v, (set, frozenset)):
        return "{" + ", ".join(tla_value(x) for x in sorted(v, key=repr)) + "}"
    if isinstance(v, (list, tuple)):
        return "<<" + ", ".join(tla_value(x) for x in v) + ">>"
    raise TypeError(v)


def make_cfg(constants, invariants=(), properties=(), init="Init", next_="Next", view=None,
             constraint=None, action_constraint=None, postcondition=None, spec=None, deadlock=False):
    L = ["CONSTANTS"]
    for k, v in constants.items():
        L.append(" %s = %s" % (k, tla_value(v)))
    if spec:
        L.append("SPECIFICATION %s" % spec)
    else:
        L.append("INIT %s" % init)
        L.append("NEXT %s" % next_)
    if view:
        L.append("VIEW %s" % view)
    for c in ([constraint] if isinstance(constraint, str) else (constraint or [])):
        L.append("CONSTRAINT %s" % c)
    if action_constraint:
        L.append("ACTION_CONSTRAINT %s" % action_constraint)
    for i in invariants:
        L.append("INVARIANT %s" % i)
    for p in properties:
        L.append("PROPERTY %s" % p)
    if postcondition:
        L.append("POSTCONDITION %s" % postcondition)
    L.append("CHECK_DEADLOCK %s" % ("TRUE" if deadlock else "FALSE"))
    return "\n".join(L) + "\n"


class TLCResult:
    def __init__(self):
        self.ok = False            # finished without error
        self.completed = False     # "Model checking completed"
        self.generated = 0
        self.distinct = 0
        self.depth = 0
        self.violations = []       # [(kind, name)]
        self.errors = []           # other error lines
        self.stdout = ""
        self.wall = 0.0
        self.timed_out = False
        self.rc = None

    def as_dict(self):
        return dict(ok=self.ok, completed=self.completed, generated=self.generated, distinct=self.distinct,
                    depth=self.depth, violations=self.violations, errors=self.errors[:5], wall=round(self.wall, 2),
                    timed_out=self.timed_out)


_RE_STATES = re.compile(r"^(\d+) states generated, (\d+) distinct states found", re.M)
_RE_DEPTH = re.compile(r"depth of the complete state graph search is (\d+)")
_RE_INV = re.compile(r"Error: Invariant (\S+) is violated")
_RE_ACT = re.compile(r"Error: Action property (\S+) is violated")
_RE_TMP = re.compile(r"Error: Temporal properties were violated")


def run_tlc(module, cfg_text, workers=16, timeout=600, extra=(), env_extra=None, workdir=None, tag=None,
            jvm=("-Xmx8g",), keep=False):
    """Run TLC on spec/<module>.tla with the given cfg text in a private work dir."""
    h = hashlib.sha256((module + cfg_text + repr(extra) + (tag or "")).encode()).hexdigest()[:16]
    wd = workdir or os.path.join(CACHE, "tlc", "%s-%s-%d" % (module, h, os.getpid()))
    os.makedirs(wd, exist_ok=True)
    for f in os.listdir(SPEC):
        if f.endswith(".tla"):
            shutil.copy(os.path.join(SPEC, f), wd)
    cfgp = os.path.join(wd, module + ".cfg")
    with open(cfgp, "w") as f:
        f.write(cfg_text)
    cmd = ["java", "-XX:+UseParallelGC", "-XX:ParallelGCThreads=%d" % max(1, min(4, workers // 2)), *jvm, "-cp", JAR + ":" + CM, "tlc2.TLC", "-workers", str(workers),
           "-metadir", os.path.join(wd, "meta"), "-noGenerateSpecTE", "-config", cfgp, *extra,
           os.path.join(wd, module + ".tla")]
    env = dict(os.environ)
    if env_extra:
        env.update(env_extra)
    res = TLCResult()
    t0 = time.time()
    try:
        p = subprocess.run(cmd, cwd=wd, env=env, stdout=subprocess.PIPE, stderr=subprocess.STDOUT, timeout=timeout,
                           text=True, errors="replace")
        res.stdout = p.stdout
        res.rc = p.returncode
    except subprocess.TimeoutExpired as e:
        res.timed_out = True
        out = e.stdout or ""
        res.stdout = out if isinstance(out, str) else out.decode(errors="replace")
        subprocess.run(["pkill", "-f", wd], check=False)
    res.wall = time.time() - t0
    out = res.stdout
    m = None
    for m in _RE_STATES.finditer(out):
        pass
    if m:
        res.generated, res.distinct = int(m.group(1)), int(m.group(2))
    m = _RE_DEPTH.search(out)
    if m:
        res.depth = int(m.group(1))
    res.completed = "Model checking completed" in out or "Finished in" in out
    res.violations = [("invariant", x) for x in _RE_INV.findall(out)] + \
                     [("action", x) for x in _RE_ACT.findall(out)]
    if _RE_TMP.search(out):
        res.violations.append(("temporal", "?"))
    for line in out.splitlines():
        if line.startswith("Error:") and not _RE_INV.search(line) and not _RE_ACT.search(line) \
                and "behavior up to this point" not in line.lower():
            res.errors.append(line)
    res.ok = res.completed and not res.violations and not res.errors and not res.timed_out
    if not keep and not workdir:
        shutil.rmtree(wd, ignore_errors=True)
    else:
        res.workdir = wd
    return res


def counterexample(out):
    """Extract the printed error trace (list of state texts) from TLC output."""
    states = re.split(r"^State \d+: ", out, flags=re.M)[1:]
    return [s.strip() for s in states]
